#!/usr/bin/env python3
"""Regenerates /verif/MANIFEST.json from the table below (single source of truth)."""
import json, os
HERE = os.path.dirname(os.path.dirname(os.path.abspath(__file__)))

# id -> (category, technique, design_ref, text, note)  ; only built checks are listed here
BUILT = {}
exec(open(os.path.join(HERE, "tools", "checks_table.py")).read())

ALL = ["C%02d" % i for i in range(1, 21)]
checks = []
for pid in ALL:
    if pid not in BUILT:
        continue
    cat, tech, ref, text, note = BUILT[pid]
    checks.append({
        "property_id": pid,
        "quick_cmd": "./check %s quick" % pid,
        "thorough_cmd": "./check %s thorough" % pid,
        "evidence_file": "/verif/evidence/%s.json" % pid,
        "replay_cmd_template": "./check replay {path}",
        "engine": "mc",
        "level_claimed": {"category": cat, "text": text, "design_ref": ref},
        "level_note": note,
        "technique": tech,
    })
na = [{"property_id": p, "reason": NOT_BUILT.get(p, "check not built yet in this round; planned per DESIGN.md")}
      for p in ALL if p not in BUILT]
m = {
    "version": 1,
    "setup_cmd": "./setup.sh",
    "hooks": {
        "guard": "cargo feature `verif` on crate oxmpl",
        "enable": "the harness crate /verif/mc depends on oxmpl = { path = \"/repo/oxmpl\", features = [\"verif\"] }; the Python extension is built with `cargo build -p oxmpl-py --features oxmpl/verif`",
        "baseline_off_cmd": "cd /repo && cargo test --workspace --no-fail-fast --offline",
        "source_commits": HOOK_COMMITS,
        "add_only": True,
    },
    "engines": [
        {"name": "mc", "path": "/verif/mc", "serves_properties": sorted(BUILT),
         "kind_free_text": "hand-rolled explicit-state / exhaustive-sequence explorer in Rust driving the real oxmpl planners and spaces through scripted seams (samplers, validity checker, goal, logical clock, entropy), with Rust reference models compared in lock-step"},
    ],
    "checks": checks,
    "not_applicable": na,
    "notes": "Exit codes of every check: 0 held (KNOWN-FINDING lines allowed), 1 VIOLATION, 2 engine error (never a verdict). See DESIGN.md.",
}
json.dump(m, open(os.path.join(HERE, "MANIFEST.json"), "w"), indent=1)
print("MANIFEST.json: %d checks, %d not_applicable" % (len(checks), len(na)))

#!/bin/sh
# tools/mutant_matrix.sh [P] : runs every mutants/*.patch (per mutants/MAP.txt) against its checks in scratch
# worktrees (tools/try_wt.sh), P at a time, and writes mutants/RESULTS.json {name: {runs: {check: exit}}}.
P=${1:-3}
mkdir -p /verif/scratch/mut
cat /verif/mutants/MAP.txt | xargs -P $P -L 1 sh -c 'n=$1; shift; /verif/tools/try_wt.sh /verif/mutants/$n.patch "$@" > /verif/scratch/mut/$n.log 2>&1' _
python3 - <<'PY'
import json,re,os
res={}
for l in open('/verif/mutants/MAP.txt'):
    n=l.split()[0]
    runs={}
    for line in open('/verif/scratch/mut/%s.log'%n):
        m=re.match(r'(C\d\d) exit=(\d+)',line)
        if m: runs[m.group(1)]=int(m.group(2))
    res[n]={'runs':runs}
json.dump(res,open('/verif/mutants/RESULTS.json','w'),indent=1,sort_keys=True)
print({n:r['runs'] for n,r in res.items() if 1 not in r['runs'].values()})
PY

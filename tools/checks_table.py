HOOK_COMMITS = ["6dcae87", "8334e9f", "84c33bf"]
NOT_BUILT = {}
_MC = "model_checking"
_NOTE_SEAMS = ("Trusted: the harness seams (scripted samplers / goal / validity world / logical clock behind cargo feature `verif`), "
               "rustc, and that goal bias 0 or 1 makes the planner independent of its RNG. Bounded by the alphabets and depths recorded in the evidence.")
BUILT = {
 "C01": (_MC, "exhaustive enumeration of sample sequences against the real planners; ground-truth world oracle", "DESIGN 2/C01",
         "Every sample sequence up to the depth bound over a 10-12 state alphabet (duplicates, goal states, states inside obstacles), for every world of a 19-world lattice (all 16 obstacle subsets, start marginally inside an obstacle, goal region overlapping an obstacle), 4 planners, 6 spaces, step lattice and both RRT-Connect goal roots, is executed on a fresh real planner; every state of every returned path is judged by the pure world predicate and an invalid start must yield InvalidStartState.", _NOTE_SEAMS),
 "C02": (_MC, "exhaustive enumeration of sample sequences and call histories against the real planners", "DESIGN 2/C02",
         "All sample sequences up to the depth bound x worlds x steps x planners x spaces: each returned path must be non-empty, start bit-for-bit at the installed start and end inside the goal region (pure predicate).", _NOTE_SEAMS),
 "C03": (_MC, "exhaustive enumeration of sample sequences; validity-query log coverage oracle + dense ground truth", "DESIGN 2/C03",
         "For every returned path of every enumerated sequence (thin-wall / sliver worlds x resolution x step x radius lattice) each segment must be covered by accepted validity queries lying on the segment with no gap above the space's longest-valid-segment length, and dense ground truth must show no invalid stretch >= L inside one obstacle.", _NOTE_SEAMS),
 "C04": (_MC, "exhaustive enumeration of sample sequences over a bounds lattice; independent bounds model", "DESIGN 2/C04",
         "Bounds lattice (boxes, angular intervals of span <pi, =pi, >pi, touching +-pi, cones of 6 radii / 2 centres, compounds and SE(2) of these) x in-bounds alphabets on both sides of the seam x all sequences to the depth bound x 4 planners: every returned path state must satisfy an independently written bounds model with 1e-9 rounding tolerance.", _NOTE_SEAMS),
 "C05": (_MC, "exhaustive enumeration of sample sequences over a step/radius lattice", "DESIGN 2/C05",
         "Step / radius lattice from 0.3 to 1e6 times the unit x worlds x all sequences to the depth bound: consecutive path states are at most max_distance (RRT, RRT-Connect), max(max_distance, search_radius) (RRT*), connection_radius (PRM) apart in the space's own metric (stated NLERP tolerance 1e-5 on SO(3)-containing spaces).", _NOTE_SEAMS),
}

HOOK_COMMITS = ["6dcae87", "8334e9f", "84c33bf"]
NOT_BUILT = {}
BUILT = {}

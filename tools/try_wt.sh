#!/bin/sh
# tools/try_wt.sh <patch-file | existing-worktree-dir> <check>...   (TIER=quick|thorough, KEEP=1 keeps the dirs)
# Runs checks against a patched scratch worktree of /repo WITHOUT touching /repo or /verif's build:
# a private copy of the harness (check, mc, py, known_findings.json) under /tmp is pointed at the
# worktree through MC_REPO. Several of these can run side by side. Everything is removed afterwards.
src=$1; shift
tag=$$
vt=/tmp/vtry.$tag
made_wt=""
if [ -d "$src" ]; then wt=$(realpath "$src"); else
  wt=/tmp/oxwt.$tag
  # a seeded patch that conflicts with a later fix: commit names the /repo commit it applies to in its meta.json
  base=HEAD
  mj="$(dirname "$(realpath "$src")")/meta.json"
  [ -f "$mj" ] && b=$(python3 -c "import json,sys; print(json.load(open(sys.argv[1])).get('applies_to',''))" "$mj" 2>/dev/null) && [ -n "$b" ] && base=$b
  git -C /repo worktree add -q --detach "$wt" $base || exit 2
  git -C "$wt" apply "$(realpath "$src")" 2>/dev/null || git -C "$wt" apply -3 "$(realpath "$src")" || { git -C /repo worktree remove --force "$wt"; exit 2; }
  made_wt=1
fi
# the harness as COMMITTED in /verif (uncommitted edits in progress never leak into a trial); SRC=worktree uses the working tree
mkdir -p $vt/target || exit 2
if [ "$SRC" = worktree ]; then cp -r /verif/check /verif/mc /verif/py /verif/known_findings.json $vt/ || exit 2
else git -C /verif archive HEAD check mc py known_findings.json | tar -x -C $vt || exit 2; fi
[ -d /verif/target/mc ] && cp -r /verif/target/mc $vt/target/mc
for c in "$@"; do
  out=$(MC_REPO=$wt $vt/check $c ${TIER:-quick} 2>&1); code=$?
  echo "$c exit=$code $(echo "$out" | grep -E '^  key:' | head -4 | tr '\n' ';')"
  [ $code -eq 2 ] && echo "$out" | grep -E 'ENGINE|^error' | head -5
  [ -n "$SHOW" ] && echo "$out" | grep -E "what:|VIOLATION" | head -6
done
if [ -z "$KEEP" ]; then
  rm -rf $vt
  [ -n "$made_wt" ] && { rm -rf "$wt/target"; git -C /repo worktree remove --force "$wt"; }
fi

#!/bin/sh
# tools/confirm_seed.sh <seed-id> <worktree> [cargo-features]
# Confirms a seeded change in its scratch worktree: existing suite passes with it, demo fails with it, demo passes without it.
# Saves patch.diff + demo under /verif/seeded/<seed-id>/ and prints a summary.
id=$1; wt=$2; feat=${3:-}
out=/verif/seeded/$id; mkdir -p $out
cd $wt || exit 1
git diff HEAD -- oxmpl/src oxmpl-py/src > $out/patch.diff
cp oxmpl/tests/seeded_demo.rs $out/seeded_demo.rs 2>/dev/null
[ -s $out/patch.diff ] || { echo "empty patch"; exit 1; }
F=""; [ -n "$feat" ] && F="--features $feat"
echo "== demo WITH change (expect FAIL)"
cargo test -p oxmpl --test seeded_demo --offline $F 2>&1 | grep -E "^test result|panicked" | tail -4 > $out/demo_with.txt; cat $out/demo_with.txt
echo "== existing suite WITH change (expect pass; seeded_demo excluded)"
mv oxmpl/tests/seeded_demo.rs /tmp/seeded_demo_$id.rs
cargo test --workspace --no-fail-fast --offline 2>&1 | grep -E "^test result|FAILED|failed" > $out/suite_with.txt
mv /tmp/seeded_demo_$id.rs oxmpl/tests/seeded_demo.rs
grep -E '^test [A-Za-z_0-9:]+ \.\.\. FAILED' $out/suite_with.txt | grep -v prm_finds_path_in_so3ss && echo '!!! SUITE-BROKEN: a test other than the known load-dependent prm_so3ss fails with this change — re-run it before keeping the seed'
echo "ok-lines: $(grep -c 'test result: ok' $out/suite_with.txt)  failed-lines: $(grep -vc 'test result: ok' $out/suite_with.txt)"; grep -v 'test result: ok' $out/suite_with.txt | head -5
echo "== demo WITHOUT change (expect pass)"
git apply -R $out/patch.diff  # (not git stash: the stash is shared between worktrees)
cargo test -p oxmpl --test seeded_demo --offline $F 2>&1 | grep -E "^test result|panicked" | tail -4 > $out/demo_without.txt; cat $out/demo_without.txt
git apply $out/patch.diff

#!/bin/sh
# tools/trymutant.sh <patch> <check>... : apply patch to /repo, run quick checks, revert. Prints exit codes.
patch=$(realpath "$1"); shift
cd /repo && git diff --quiet || { echo "repo dirty"; exit 1; }
git -C /repo apply "$patch" || exit 1
for c in "$@"; do
  out=$(cd /verif && ./check $c quick 2>&1); code=$?
  echo "$c exit=$code $(echo "$out" | grep -E 'key:' | head -3 | tr '\n' ';')"
  [ $code -eq 2 ] && echo "$out" | grep ENGINE | head -3
done
git -C /repo checkout -- .

#!/usr/bin/env python3
"""tools/seed_table.py : regenerates the table between <!-- SEEDS:BEGIN --> and <!-- SEEDS:END --> in DESIGN.md
from seeded/*/meta.json (and mutants/RESULTS.json between <!-- MUTANTS:BEGIN/END --> if present)."""
import json, glob, os, re
HERE = os.path.dirname(os.path.dirname(os.path.abspath(__file__)))
rows = []
for d in sorted(glob.glob(os.path.join(HERE, 'seeded', '*'))):
    mp = os.path.join(d, 'meta.json')
    if not os.path.exists(mp):
        continue
    m = json.load(open(mp))
    needs = m['needs_to_manifest'].replace('|', '/').replace('\n', ' ')
    note = m.get('note', '').replace('|', '/').replace('\n', ' ')
    rows.append('| `%s` | %s | %s | %s | %s | %s |' % (
        m['id'], m['breaks_property'], needs,
        ', '.join(m['checks_run']['caught_by']) or '—',
        ', '.join(m['checks_run']['not_caught_by']) or '—', note))
table = ['| seeded change | breaks | what it needs to manifest | caught by (quick tier) | also run, silent | what the checks reported / what was strengthened |',
         '|---|---|---|---|---|---|'] + rows
p = os.path.join(HERE, 'DESIGN.md')
s = open(p).read()
s = re.sub(r'(<!-- SEEDS:BEGIN -->\n).*?(<!-- SEEDS:END -->)', lambda m: m.group(1) + '\n'.join(table) + '\n' + m.group(2), s, flags=re.S)
rp = os.path.join(HERE, 'mutants', 'RESULTS.json')
if os.path.exists(rp):
    res = json.load(open(rp))
    mt = ['| mutant (mutants/*.patch) | checks run → exit | caught by |', '|---|---|---|']
    for name in sorted(res):
        r = res[name]
        mt.append('| `%s` | %s | %s |' % (name, ', '.join('%s→%s' % (c, x) for c, x in r['runs'].items()), ', '.join(c for c, x in r['runs'].items() if x == 1) or '**none**' + (' (equivalent mutant)' if 'EQUIV' in name else '')))
    s = re.sub(r'(<!-- MUTANTS:BEGIN -->\n).*?(<!-- MUTANTS:END -->)', lambda m: m.group(1) + '\n'.join(mt) + '\n' + m.group(2), s, flags=re.S)
open(p, 'w').write(s)
print('seeds:', len(rows))

#!/bin/sh
# tools/confirm_seed_py.sh <seed-id> <worktree> : like confirm_seed.sh for a binding-layer change with a Python demo
id=$1; wt=$2
out=/verif/seeded/$id; mkdir -p $out
cd $wt || exit 1
git diff HEAD -- oxmpl/src oxmpl-py/src > $out/patch.diff
cp oxmpl-py/tests/seeded_demo.py $out/seeded_demo.py
[ -s $out/patch.diff ] || { echo "empty patch"; exit 1; }
build() { cargo build -p oxmpl-py --release --offline --features oxmpl/verif 2>&1 | tail -1; mkdir -p target/pyext_confirm && cp target/release/liboxmpl_py.so target/pyext_confirm/oxmpl_py.so; }
echo "== demo WITH change (expect FAIL)"; build
PYTHONPATH=$wt/target/pyext_confirm python3 oxmpl-py/tests/seeded_demo.py > $out/demo_with_full.txt 2>&1; echo "exit=$?" > $out/demo_with.txt; tail -2 $out/demo_with_full.txt >> $out/demo_with.txt; cat $out/demo_with.txt
echo "== existing suite WITH change"
cargo test --workspace --no-fail-fast --offline 2>&1 | grep -E "^test result|FAILED|failed" > $out/suite_with.txt
grep -E '^test [A-Za-z_0-9:]+ \.\.\. FAILED' $out/suite_with.txt | grep -v prm_finds_path_in_so3ss && echo '!!! SUITE-BROKEN: a test other than the known load-dependent prm_so3ss fails with this change — re-run it before keeping the seed'
echo "ok-lines: $(grep -c 'test result: ok' $out/suite_with.txt)  failed-lines: $(grep -vc 'test result: ok' $out/suite_with.txt)"
echo "== demo WITHOUT change (expect pass)"
git apply -R $out/patch.diff; build  # (not git stash: the stash is shared between worktrees)
PYTHONPATH=$wt/target/pyext_confirm python3 oxmpl-py/tests/seeded_demo.py > $out/demo_without_full.txt 2>&1; echo "exit=$?" > $out/demo_without.txt; tail -2 $out/demo_without_full.txt >> $out/demo_without.txt; cat $out/demo_without.txt
git apply $out/patch.diff
rm -f $out/demo_with_full.txt $out/demo_without_full.txt

#!/bin/sh
# tools/recheck_batch.sh <file> [parallel]: lines "<seed-id> <check>..." -> tools/try_wt.sh on seeded/<id>/patch.diff, appended to scratch/w9/<seed-id>.log
f=$1; P=${2:-4}
grep -v '^#' "$f" | xargs -P $P -L 1 sh -c 'id=$0; SHOW=1 nice -n 5 /verif/tools/try_wt.sh /verif/seeded/$id/patch.diff "$@" >> /verif/scratch/${WAVE:-w9}/$id.log 2>&1; echo "rechecked $id"'

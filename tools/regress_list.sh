#!/bin/sh
# tools/regress_list.sh <file of "seed-id check..." lines> [parallel]: like regress_seeds.sh for a chosen list
P=${2:-3}
cat "$1" | xargs -P $P -L 1 sh -c 'id=$0; r=$(nice -n 10 /verif/tools/try_wt.sh /verif/seeded/$id/patch.diff "$@" 2>&1 | grep "exit=" | sed "s/^/$id /" | cut -c1-200); echo "$r" >> /verif/scratch/regress.log'

#!/usr/bin/env python3
"""tools/wave_meta.py <meta.tsv> <logdir>: lines "id<TAB>property<TAB>needs<TAB>note"; caught / silent checks are read
from <logdir>/<id>.log (lines "Cnn exit=N", the last one per check wins; exit 2 is reported in the note) and
seeded/<id>/meta.json is written through tools/seed_meta.py."""
import sys,re,subprocess,os
tsv,logdir=sys.argv[1:3]
for line in open(tsv):
    line=line.rstrip('\n')
    if not line or line.startswith('#'): continue
    sid,prop,needs,note=(line.split('\t')+['',''])[:4]
    lp=os.path.join(logdir,sid+'.log')
    res={}
    if os.path.exists(lp):
        for m in re.finditer(r'^(C\d\d) exit=(\d+)',open(lp).read(),re.M):
            res[m.group(1)]=int(m.group(2))
    caught=[c for c,x in sorted(res.items()) if x==1]
    # own property first
    caught.sort(key=lambda c:(c!=prop,c))
    silent=[c for c,x in sorted(res.items()) if x==0]
    err=[c for c,x in sorted(res.items()) if x==2]
    if err: note=(note+' ' if note else '')+'(%s stopped with an engine error - exit 2, nothing claimed)'%', '.join(err)
    if not os.path.exists('/verif/seeded/%s/patch.diff'%sid):
        print('!! no patch for',sid); continue
    subprocess.check_call(['python3','/verif/tools/seed_meta.py',sid,prop,needs,','.join(caught),','.join(silent),note])

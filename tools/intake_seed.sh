#!/bin/sh
# tools/intake_seed.sh <agent-dir> <A|B> <seed-id> <check>...
# Confirms a sub-agent's change in a fresh scratch worktree of /repo's HEAD (demo fails with it, passes
# without it, existing suite passes with it), stores it under /verif/seeded/<seed-id>/, then runs the
# named quick checks against that worktree through tools/try_wt.sh. Removes the worktree afterwards.
ad=$1; which=$2; id=$3; shift 3
wt=/tmp/intake.$$
git -C /repo worktree add -q --detach $wt ${BASE:-HEAD} || exit 2
( cd $wt && { git apply $ad/seed_out/$which.diff || git apply -3 $ad/seed_out/$which.diff; } ) || { echo "patch does not apply"; git -C /repo worktree remove --force $wt; exit 2; }
mkdir -p /verif/seeded/$id
cp $ad/seed_out/$which.md /verif/seeded/$id/agent_notes.md 2>/dev/null
if [ -f $ad/seed_out/${which}_demo.py ]; then
  cp $ad/seed_out/${which}_demo.py $wt/oxmpl-py/tests/seeded_demo.py
  /verif/tools/confirm_seed_py.sh $id $wt 2>&1 | tail -12
else
  cp $ad/seed_out/${which}_demo.rs $wt/oxmpl/tests/seeded_demo.rs
  /verif/tools/confirm_seed.sh $id $wt 2>&1 | tail -12
fi
echo "== checks"
SHOW=${SHOW:-} /verif/tools/try_wt.sh $wt "$@"
rm -rf $wt/target $wt/site; git -C /repo worktree remove --force $wt

#!/usr/bin/env python3
# tools/launch_audit.py <root>: one scratch worktree of /repo per property under <root>/<id> with audit_out/TASK.md - the agent
# is asked for inputs on which the UNCHANGED tree violates the property (nothing from /verif is given to it).
import json,subprocess,os,sys
ROOT=sys.argv[1]
props=[json.loads(l) for l in open('/verif/properties.jsonl')]
only=os.environ.get('ONLY','').split()
for p in props:
    pid=p['id']; d=f'{ROOT}/{pid}'
    if only and pid not in only: continue
    os.makedirs(ROOT,exist_ok=True)
    subprocess.check_call(['git','-C','/repo','worktree','add','-q','--detach',d,'HEAD'])
    os.makedirs(d+'/audit_out',exist_ok=True)
    py = pid in ('C19','C20')
    demo = ("a Python script `F<n>_demo.py` (exit status 0 = property held, non-zero = violated). Build the extension with `PYO3_PYTHON=$(which python3) cargo build -p oxmpl-py --release --offline`, then `mkdir -p site && cp target/release/liboxmpl_py.so site/oxmpl_py.so`, run with `PYTHONPATH=site python3 audit_out/F1_demo.py` (module `oxmpl_py`, see oxmpl-py/tests for API usage)"
            if py else "a self-contained Rust integration-test file `F<n>_demo.rs` that can be dropped in as `oxmpl/tests/audit_demo.rs` and run with `cargo test -p oxmpl --test audit_demo --offline`")
    task=f"""# Task

You are working in a scratch git worktree of the Rust project juniorsundar/oxmpl at `{d}` (a sampling-based
motion-planning library: crate `oxmpl` is the core, `oxmpl-py` the PyO3 binding). Work ONLY inside `{d}`. No network:
always pass `--offline` to cargo. Never touch /repo or any other directory; no `git stash`, no `pkill`. Do not change
library sources (you may add test files).

The property below is something users of the library rely on.

    id: {pid}
    title: {p.get('title','')}
    statement: {p['statement']}
    quantifier: {p['quantifier']['text']}
    code anchors (line numbers may have drifted): {json.dumps(p['anchors'].get('mechanism',[]))}

## What to produce

AUDIT the code as it is: find concrete inputs (states, bounds, parameters, call sequences, callback behaviours, seeds,
floating-point coincidences such as values that round differently, states exactly on a boundary, non-canonical
representations, extreme magnitudes) for which the library VIOLATES the property as it is stated. Read the statement
strictly: only a contradiction of what it says counts, not a weakness of quality or speed, not inputs the statement
excludes, not NaN states or deliberately ill-formed objects unless the statement speaks about them.

For every violation you can actually reproduce deliver, in `{d}/audit_out/`:
 * {demo}. It must FAIL on the code as it is - run it and quote the output;
 * `F<n>.md`: the exact input, what happens, which clause of the statement it contradicts, and the smallest repair you
   would propose (do not apply it).
Look hard at the less travelled corners: every branch of the relevant functions, every early return, every place where two
code sites must agree. Prefer one solid, reproduced finding over many speculative ones; list unreproduced suspicions
separately at the end of your reply in one line each. If you find nothing after a thorough audit, say so.

At the end `rm -rf {d}/target {d}/site`. Keep each reply short; write files with tools.
Final reply: one paragraph per reproduced finding (input, effect, clause), then the one-line suspicions.
"""
    open(d+'/audit_out/TASK.md','w').write(task)
print('ok')

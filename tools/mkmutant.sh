#!/bin/sh
# tools/mkmutant.sh <name> <file> <python-expr old> <python-expr new> : creates mutants/<name>.patch from a single textual replacement
# usage: tools/mkmutant.sh name path 'old text' 'new text' [count]
set -e
name=$1; file=$2; old=$3; new=$4; cnt=${5:-1}
cd /repo
git diff --quiet || { echo "repo dirty"; exit 1; }
python3 - "$file" "$old" "$new" "$cnt" <<'PY'
import sys
f,old,new,cnt=sys.argv[1],sys.argv[2],sys.argv[3],int(sys.argv[4])
s=open(f).read()
assert s.count(old)>=1, "pattern not found"
if cnt==0: s=s.replace(old,new)
else:
    assert s.count(old)==cnt or cnt==1, (s.count(old),cnt)
    s=s.replace(old,new,1) if cnt==1 else s.replace(old,new)
open(f,'w').write(s)
PY
git diff > /verif/mutants/$name.patch
git checkout -- .
echo "created mutants/$name.patch"

#!/usr/bin/env python3
"""tools/seed_meta.py <seed-id> <property> <needs> <caught_by(comma)> <missed_by(comma)> [note]"""
import json,sys,os
sid,prop,needs,caught,missed=sys.argv[1:6]
note=sys.argv[6] if len(sys.argv)>6 else ""
d='/verif/seeded/'+sid
def rd(f):
    p=os.path.join(d,f)
    return open(p).read().strip().splitlines() if os.path.exists(p) else []
suite=rd('suite_with.txt')
meta={"id":sid,"breaks_property":prop,"needs_to_manifest":needs,
 "source":"independent sub-agent given only the property text and a scratch worktree",
 "confirmed":{"demo_with_change":rd('demo_with.txt')[-1:] ,"demo_without_change":rd('demo_without.txt')[-1:],
   "existing_suite_with_change":{"ok_result_lines":sum('test result: ok' in l for l in suite),"other_lines":[l for l in suite if 'test result: ok' not in l]},
   "commands":["cargo test -p oxmpl --test seeded_demo --offline (with change: FAIL; git stash: pass)","cargo test --workspace --no-fail-fast --offline (with change, demo moved away)"]},
 "checks_run":{"caught_by":[c for c in caught.split(',') if c],"not_caught_by":[c for c in missed.split(',') if c]},
 "note":note}
json.dump(meta,open(os.path.join(d,'meta.json'),'w'),indent=1)
print("wrote",d+'/meta.json')

#!/bin/sh
# tools/intake_batch.sh <batch-file> <agents-root> [parallel]: lines "<prop> <A|B> <seed-id> <check>..." -> tools/intake_seed.sh, logs in scratch/w9/<seed-id>.log
f=$1; root=$2; P=${3:-4}
mkdir -p /verif/scratch/${WAVE:-w9}
grep -v '^#' "$f" | xargs -P $P -L 1 sh -c 'p=$0; w=$1; id=$2; shift 2; SHOW=1 nice -n 5 /verif/tools/intake_seed.sh '"$root"'/$p $w $id "$@" > /verif/scratch/${WAVE:-w9}/$id.log 2>&1; echo "done $id"'

#!/usr/bin/env python3
# tools/launch_wave.py <root>: one scratch worktree of /repo per property under <root>/<id> with seed_out/TASK.md
# (the property text, the rules for a seeded change, and the mechanisms earlier agents already produced).
import json,subprocess,os,glob,sys
ROOT=sys.argv[1]  # e.g. /tmp/sd
props=[json.loads(l) for l in open('/verif/properties.jsonl')]
used={}
for mp in sorted(glob.glob('/verif/seeded/*/meta.json')):
    m=json.load(open(mp))
    t=m['needs_to_manifest']
    t=t.split(': needs')[0].split('; needs')[0]
    used.setdefault(m['breaks_property'],[]).append(t[:240])
import os as _os
_only=_os.environ.get('ONLY','').split()
for p in props:
    pid=p['id']; d=f'{ROOT}/{pid}'
    if _only and pid not in _only: continue
    os.makedirs(ROOT,exist_ok=True)
    subprocess.check_call(['git','-C','/repo','worktree','add','-q','--detach',d,'HEAD'])
    os.makedirs(d+'/seed_out',exist_ok=True)
    py = pid in ('C19','C20')
    demo = ("a Python script `A_demo.py` / `B_demo.py` (exit status 0 = property held, non-zero = violated). Build the extension with `PYO3_PYTHON=$(which python3) cargo build -p oxmpl-py --release --offline`, then `mkdir -p site && cp target/release/liboxmpl_py.so site/oxmpl_py.so`, and run with `PYTHONPATH=site python3 seed_out/A_demo.py` (system python3 is 3.11 and imports it; the module is `oxmpl_py`, see oxmpl-py/tests for API usage)."
            if py else
            "a self-contained Rust integration-test file `A_demo.rs` / `B_demo.rs`, written so that it can be dropped in as `oxmpl/tests/seeded_demo.rs` and run with `cargo test -p oxmpl --test seeded_demo --offline`")
    src = "oxmpl-py/src (the binding) — or oxmpl/src if the property is best broken there" if py else "oxmpl/src"
    ul='\n'.join('   - '+u for u in used.get(pid,[]))
    task=f"""# Task

You are working in a scratch git worktree of the Rust project juniorsundar/oxmpl at `{d}`
(a sampling-based motion-planning library: crate `oxmpl` is the core, `oxmpl-py` the PyO3 binding,
`oxmpl-js` the wasm binding). Work ONLY inside `{d}`. There is no network: always pass
`--offline` to cargo. Never touch /repo or any other directory. Do NOT use `git stash` (the stash is
shared between worktrees of the same repository and other people are using it) and do not `pkill`
by pattern (other people's cargo runs would die): to test without your change use
`git diff > x.diff; git apply -R x.diff; ...; git apply x.diff`. The machine is shared and busy:
builds and tests can be several times slower than usual.

The property below is something users of the library rely on.

    id: {pid}
    title: {p.get('title','')}
    statement: {p['statement']}
    quantifier: {p['quantifier']['text']}
    why the existing tests cannot settle it: {p['why_tests_cant']}
    code anchors (line numbers may have drifted): {json.dumps(p['anchors'].get('mechanism',[]))}

## What to produce

TWO different, realistic changes to the library source ({src}), each of which BREAKS this property
(as it is stated above - read the statement carefully, a change that merely degrades quality without
contradicting the statement does not count) while

 (a) still compiling, and
 (b) still passing the whole existing test suite: `cargo test --workspace --no-fail-fast --offline`
     (run it with each change applied to be sure; the integration test `prm_so3ss` is wall-clock limited and
     known to be flaky under machine load with or without any change — disregard it only if it also fails,
     or may fail, without your change).

The kind of change wanted is a plausible bug a maintainer could introduce in a refactor, an
"optimisation", a tidy-up or a bug-fix gone wrong. It must need something SPECIFIC to manifest: a
particular multi-step sequence of API calls, an unusual input or parameter, a particular sequence of
samples, a failure/fault at a particular point, a particular floating-point coincidence, a long run, or
two cooperating sites that each look fine alone. NOT something that ordinary use or a casual smoke test
would expose at once, and not a blatant one-token sabotage of the main path. The two changes must use
different mechanisms (preferably different functions or files). Be inventive: subtle is better than big.

Other people have already produced many changes for this property. Do NOT repeat these mechanisms — find
genuinely different ones (a different function, a different kind of trigger, a different input class):
{ul}

Do not touch: code guarded by `#[cfg(feature = "verif")]`, `oxmpl/src/verif.rs`, any existing test, any Cargo file.

For each change deliver, in `{d}/seed_out/`:

 * `A.diff` / `B.diff`: `git diff` of the source change only, applicable with `git apply` to a clean checkout;
 * the demonstration: {demo}. It must FAIL with the change applied and PASS without it — verify both yourself;
 * `A.md` / `B.md`: what the change is, why it breaks the property, exactly what is needed for it to manifest,
   and the commands you ran with their results (suite with change, demo with change, demo without change).

At the end: restore the sources (`git checkout -- .` so `git status` shows only `seed_out/` as untracked),
and `rm -rf {d}/target {d}/site` to free disk. Keep `seed_out/`.

Your final reply: for each of A and B, three lines — mechanism, what it needs to manifest, verification results.
If, while working, you notice an input for which the UNCHANGED code already violates the property as stated, add one
paragraph about it at the end (the exact input and what happens); do not build your changes on it.
Keep each individual reply short: write files with tools instead of printing long content.
"""
    open(d+'/seed_out/TASK.md','w').write(task)
print('ok')

#!/bin/sh
# tools/regress_seeds.sh [parallel]  : every kept seeded change against the checks its meta.json lists under
# caught_by, with the COMMITTED harness, in scratch worktrees (tools/try_wt.sh). Output: one line per
# (seed, check) in scratch/regress.log; a summary of checks that no longer report their seed at the end.
P=${1:-3}
out=/verif/scratch/regress.log
: > $out
ls /verif/seeded | while read id; do
  m=/verif/seeded/$id/meta.json
  [ -f $m ] || continue
  cs=$(python3 -c "import json,sys; print(' '.join(json.load(open(sys.argv[1]))['checks_run']['caught_by']))" $m)
  [ -n "$cs" ] && echo "$id $cs"
done | xargs -P $P -L 1 sh -c 'id=$0; r=$(nice -n 10 /verif/tools/try_wt.sh /verif/seeded/$id/patch.diff "$@" 2>&1 | grep "exit=" | sed "s/^/$id /" | cut -c1-200); echo "$r" >> /verif/scratch/regress.log'
echo "== seeds whose listed check did not exit 1:"
grep -v "exit=1" $out

//! C08: API protocol and fault handling — every call sequence up to a bound from `new()` against a
//! reference API automaton, each call under catch_unwind; sampler failures at the k-th call for
//! every k below a bound; out-of-range goal bias; empty start list.
//! C02 (history part): the same call sequences judged by "the path answers the most recently
//! installed problem".

use crate::catalog::{base_of, Base, KITS};
use crate::drv::{err_name, iters, Drv, Pd, Pk};
use crate::explore::{guarded, Caught, LONG};
use crate::kit::{Kit, Spec, V};
use crate::report::{finish, h128, CheckMeta, Report};
use crate::scen::{dist_fn, ObstSpec, Rig, Scenario};
use crate::seams::HGoal;
use crate::with_kit;
use oxmpl::base::error::PlanningError;
use rayon::prelude::*;
use serde_json::{json, Value};
use std::sync::Arc;
use std::time::Instant;

#[derive(Clone, Copy, Debug, PartialEq, Eq, Hash)]
pub enum Op {
    SetupP1,
    SetupP2,
    SetupBad,
    SolveF,
    SolveR,
    Construct,
    SetPd1,
    SetPd2,
    SetPdBad,
    /// setup(P1) with a SECOND validity checker (world 2 = world 1 plus an obstacle on the scripted route)
    SetupP1W2,
    /// setup(P1') where P1' = P1 with the start stored as another representation of the same configuration
    /// (angle + 2 pi, -q): distance 0 from P1's start, different bits
    SetupP1Twin,
}

#[derive(Clone, Copy, Debug, PartialEq, Eq)]
enum Prob {
    None,
    P1,
    P2,
    Bad,
}

pub struct ApiKit {
    pub far: usize,
    pub far_r: f64,
    pub fwd: Vec<u8>,
    pub rev: Vec<u8>,
    pub build: Vec<u8>,
}

pub fn api_kit(kit: &str) -> ApiKit {
    match kit {
        "RealVector" => ApiKit { far: 11, far_r: 0.2, fwd: vec![2, 4, 5], rev: vec![4, 2, 0], build: vec![2, 4, 5, 0, 11, 7] },
        "SO2" => ApiKit { far: 7, far_r: 0.1, fwd: vec![2, 3, 4, 5], rev: vec![4, 3, 2, 0], build: vec![2, 3, 4, 5, 0, 7] },
        "SO3" => ApiKit { far: 6, far_r: 0.15, fwd: vec![2, 7, 9], rev: vec![7, 2, 0], build: vec![2, 7, 9, 0, 6, 4] },
        "Compound" | "SE2" => ApiKit { far: 10, far_r: 0.3, fwd: vec![2, 5, 6], rev: vec![5, 2, 0], build: vec![2, 5, 6, 0, 10, 3] },
        "SE3" => ApiKit { far: 9, far_r: 0.3, fwd: vec![2, 4, 5], rev: vec![4, 2, 0], build: vec![2, 4, 5, 0, 9, 3] },
        _ => panic!(),
    }
}

pub fn api_scenario(kit: &str, pk: Pk) -> Scenario {
    let b: Base = base_of(kit);
    let ak = api_kit(kit);
    let w = b.world_named("far-obstacle", vec![ObstSpec::Ball(b.alphabet[ak.far].clone(), ak.far_r)]);
    let mut p = b.params(pk, if pk == Pk::Prm { 1.1 } else { 1.0 }, 1.5, 0.0);
    p.seed = Some(3);
    b.scenario(w, p, &format!("API/{kit}/{}", pk.name()))
}

struct Harness<K: Kit> {
    rig: Rig<K>,
    p1: Arc<Pd<K>>,
    p2: Arc<Pd<K>>,
    pbad: Arc<Pd<K>>,
    g1: Arc<HGoal<K>>,
    g2: Arc<HGoal<K>>,
    s1: K::S,
    s2: K::S,
    world2: Arc<crate::seams::World<K>>,
    /// (problem, start) of the twin-start variant of P1, where the space has equivalent representations
    twin: Option<(Arc<Pd<K>>, K::S)>,
}

fn harness<K: Kit>(sc: &Scenario) -> Harness<K> {
    let rig = Rig::<K>::new(sc, false);
    if sc.params.pk == Pk::Prm {
        // a PRM call that draws samples where none were foreseen (a query that builds a roadmap on its own)
        // ends through the deadline and is judged by what it returns, not stopped as harness trouble
        rig.space.expire_when_exhausted.set(true);
    }
    let b = base_of(sc.kit);
    let ak = api_kit(sc.kit);
    let dist = dist_fn::<K>(&sc.spec);
    let s1 = rig.start.clone();
    let s2 = K::from_v(&sc.goal_samples[0]);
    let g1 = rig.goal.clone();
    let g2 = Arc::new(HGoal::<K>::new(vec![(s1.clone(), sc.goal_balls[0].1)], vec![s1.clone()], dist));
    let p1 = rig.pd.clone();
    let p2 = Arc::new(Pd::<K> { space: rig.space.clone(), start_states: vec![s2.clone()], goal: g2.clone() });
    let bad_start = K::from_v(&b.alphabet[ak.far]);
    // (the problem with the rejected start asks for a goal region no tree node or milestone can lie in - a ball of radius
    // 1e-9 around its own rejected start: whatever else is wrong with the question, the answer is InvalidStartState)
    let gbad = Arc::new(HGoal::<K>::new(vec![(bad_start.clone(), 1e-9)], vec![bad_start.clone()], dist_fn::<K>(&sc.spec)));
    let pbad = Arc::new(Pd::<K> { space: rig.space.clone(), start_states: vec![bad_start], goal: gbad });
    // world 2: the far obstacle plus a ball on the middle state of the forward script
    let mut w2 = sc.world.clone();
    w2.name = format!("{}+route-blocked", w2.name);
    w2.obst.push(ObstSpec::Ball(b.alphabet[ak.fwd[1] as usize].clone(), ak.far_r.max(0.1)));
    let world2 = Arc::new(crate::scen::build_world::<K>(&sc.spec, &w2));
    let twin_v = match K::to_v(&s1) {
        V::So2(a) => Some(V::So2(a + 2.0 * std::f64::consts::PI)),
        V::So3(q) => Some(V::So3([-q[0], -q[1], -q[2], -q[3]])),
        V::Cmp(mut c) => {
            let mut changed = false;
            for x in c.iter_mut() {
                match x {
                    V::So2(a) => {
                        *a += 2.0 * std::f64::consts::PI;
                        changed = true;
                    }
                    V::So3(q) => {
                        *q = [-q[0], -q[1], -q[2], -q[3]];
                        changed = true;
                    }
                    _ => {}
                }
            }
            if changed {
                Some(V::Cmp(c))
            } else {
                None
            }
        }
        _ => None,
    };
    let twin = twin_v.map(|v| {
        let st = K::from_v(&v);
        (Arc::new(Pd::<K> { space: rig.space.clone(), start_states: vec![st.clone()], goal: g1.clone() }), st)
    });
    Harness { rig, p1, p2, pbad, g1, g2, s1, s2, world2, twin }
}

pub fn menu(pk: Pk) -> Vec<Op> {
    if pk == Pk::Prm {
        vec![Op::SetupP1, Op::SetupP2, Op::SetupBad, Op::SetupP1W2, Op::Construct, Op::SetPd1, Op::SetPd2, Op::SetPdBad, Op::SolveF]
    } else {
        vec![Op::SetupP1, Op::SetupP2, Op::SetupBad, Op::SetupP1W2, Op::SetupP1Twin, Op::SolveF, Op::SolveR]
    }
}

fn for_each_seq(menu: &[Op], len: usize, f: &mut dyn FnMut(&[Op])) {
    let n = menu.len();
    let mut idx = vec![0usize; len];
    loop {
        let seq: Vec<Op> = idx.iter().map(|&i| menu[i]).collect();
        f(&seq);
        let mut i = len;
        loop {
            if i == 0 {
                return;
            }
            i -= 1;
            idx[i] += 1;
            if idx[i] < n {
                break;
            }
            idx[i] = 0;
        }
    }
}

/// Runs one call sequence against the reference automaton. `prop` selects which findings count:
/// C08 = error classes and unwinding; C02 = path endpoints w.r.t. the latest problem.
fn run_sequence<K: Kit>(prop: &str, sc: &Scenario, seq: &[Op], faults: (Option<usize>, Option<usize>), rep: &mut Report) {
    let pk = sc.params.pk;
    let ak = api_kit(sc.kit);
    let name = pk.name();
    crate::explore::watch_desc(|| format!("{{\"scenario\": {:?}, \"calls\": \"{:?}\", \"goal_sampler_faults\": \"{:?}\"}}", sc.tag, seq, faults));
    let mut h = match guarded(|| harness::<K>(sc)) {
        Ok(h) => h,
        Err(_) => {
            rep.engine_error(format!("could not build harness for {}", sc.tag));
            return;
        }
    };
    // goal-sampler failures inside a history: P1's / P2's goal fails at its k-th sample_goal call
    if let Some(k) = faults.0 {
        h.g1.fail_at.set(Some((k, 0)));
    }
    if let Some(k) = faults.1 {
        h.g2.fail_at.set(Some((k, 1)));
    }
    if faults != (None, None) {
        rep.count("sequences_with_goal_sampler_fault", 1);
    }
    let mut pd = Prob::None; // installed problem
    let mut vc = false; // checker installed
    let mut in_world2 = false; // which checker is the installed one
    let mut twin_start = false; // the installed P1 has the twin start
    let mut outcome_sig: Vec<u64> = Vec::new();
    rep.count("evaluations", 1);
    let replay = |i: usize, extra: Value| json!({"kind": "api", "prop": prop, "scenario": sc.json(), "calls": format!("{seq:?}"), "goal_sampler_fails_at": format!("{faults:?}"), "failing_call": i, "detail": extra});
    for (i, op) in seq.iter().enumerate() {
        rep.count("transitions", 1);
        let before_nodes = h.rig.snapshot().node_count();
        let r: Result<Option<Result<Vec<K::S>, PlanningError>>, Caught> = guarded(|| {
            oxmpl::verif::clock_reset(1_000_000);
            match op {
                Op::SetupP1 => {
                    h.rig.drv.setup(h.p1.clone(), h.rig.world.clone());
                    None
                }
                Op::SetupP2 => {
                    h.rig.drv.setup(h.p2.clone(), h.rig.world.clone());
                    None
                }
                Op::SetupBad => {
                    h.rig.drv.setup(h.pbad.clone(), h.rig.world.clone());
                    None
                }
                Op::SetupP1W2 => {
                    h.rig.drv.setup(h.p1.clone(), h.world2.clone());
                    None
                }
                Op::SetupP1Twin => {
                    // spaces without equivalent representations: the twin is P1 itself
                    let pd = h.twin.as_ref().map(|t| t.0.clone()).unwrap_or_else(|| h.p1.clone());
                    h.rig.drv.setup(pd, h.rig.world.clone());
                    None
                }
                Op::SetPd1 => {
                    h.rig.drv.set_problem_definition(h.p1.clone());
                    None
                }
                Op::SetPd2 => {
                    h.rig.drv.set_problem_definition(h.p2.clone());
                    None
                }
                Op::SetPdBad => {
                    h.rig.drv.set_problem_definition(h.pbad.clone());
                    None
                }
                Op::SolveF | Op::SolveR => {
                    if pk == Pk::Prm {
                        Some(h.rig.drv.solve(LONG))
                    } else {
                        let script = if *op == Op::SolveF { &ak.fwd } else { &ak.rev };
                        // pad: RRT-Connect's root resampling and refused calls must not exhaust the script
                        let mut s = script.clone();
                        s.extend_from_slice(&[script[script.len() - 1]; 2]);
                        h.rig.space.script.borrow_mut().clear();
                        h.rig.space.pos.set(0);
                        h.rig.space.push_script(&s);
                        Some(h.rig.drv.solve(iters(script.len())))
                    }
                }
                Op::Construct => {
                    h.rig.space.script.borrow_mut().clear();
                    h.rig.space.pos.set(0);
                    h.rig.space.push_script(&ak.build);
                    h.rig.drv.set_prm_timeout(crate::drv::iters_secs(ak.build.len()));
                    Some(h.rig.drv.construct_roadmap().map(|_| vec![]))
                }
            }
        });
        let r = match r {
            Ok(x) => x,
            Err(Caught::Panic(msg)) => {
                if prop == "C08" {
                    let loc = msg.rsplit(" @ ").next().unwrap_or("").rsplit('/').next().unwrap_or("").to_string();
                    rep.violate(format!("C08|{name}|protocol-panic:{op:?}@{loc}"), format!("call {i} ({op:?}) unwound: {msg}"), || replay(i, json!({"panic": msg})));
                }
                return;
            }
            Err(Caught::Harness(m)) => {
                rep.engine_error(format!("harness panic in API sequence {seq:?}: {m}"));
                return;
            }
            Err(_) => {
                rep.engine_error(format!("script/work-cap trouble in API sequence {seq:?} of {}", sc.tag));
                return;
            }
        };
        // ---- reference automaton
        match op {
            Op::SetupP1 | Op::SetupP2 | Op::SetupBad | Op::SetupP1W2 | Op::SetupP1Twin => {
                twin_start = *op == Op::SetupP1Twin && h.twin.is_some();
                pd = match op {
                    Op::SetupP1 | Op::SetupP1W2 | Op::SetupP1Twin => Prob::P1,
                    Op::SetupP2 => Prob::P2,
                    _ => Prob::Bad,
                };
                vc = true;
                in_world2 = *op == Op::SetupP1W2;
                if pk == Pk::Prm && h.rig.snapshot().node_count() != 0 && prop == "C08" {
                    rep.violate(format!("C08|{name}|setup-kept-roadmap"), "setup() did not clear the roadmap".into(), || replay(i, json!({})));
                    return;
                }
            }
            Op::SetPd1 => pd = Prob::P1,
            Op::SetPd2 => pd = Prob::P2,
            Op::SetPdBad => pd = Prob::Bad,
            Op::Construct => {
                let res = r.unwrap();
                let want_err = pd == Prob::None || !vc;
                rep.count(if want_err { "construct_uninitialised" } else { "construct_ok" }, 1);
                if prop == "C08" {
                    match (&res, want_err) {
                        (Err(PlanningError::PlannerUninitialised), true) | (Ok(_), false) => {}
                        _ => {
                            let got = res.as_ref().map(|_| "Ok").unwrap_or_else(|e| err_name(e));
                            rep.violate(format!("C08|{name}|construct:{got}-expected-{}", if want_err { "PlannerUninitialised" } else { "Ok" }), format!("construct_roadmap returned {got}"), || replay(i, json!({})));
                            return;
                        }
                    }
                    if before_nodes > 0 && h.rig.snapshot().node_count() != before_nodes {
                        rep.violate(format!("C08|{name}|construct-rebuilt"), "construct_roadmap modified an existing roadmap".into(), || replay(i, json!({})));
                        return;
                    }
                }
            }
            Op::SolveF | Op::SolveR => {
                let res = r.unwrap();
                let roadmap_empty = pk == Pk::Prm && before_nodes == 0;
                // allowed result classes
                let allowed: Vec<&str> = if pd == Prob::None || !vc {
                    vec!["PlannerUninitialised"]
                } else if pk == Pk::Prm && roadmap_empty {
                    if pd == Prob::Bad {
                        vec!["UnsampledStateSpace", "InvalidStartState"]
                    } else {
                        vec!["UnsampledStateSpace"]
                    }
                } else if pd == Prob::Bad {
                    vec!["InvalidStartState"]
                } else {
                    vec!["Ok", "Timeout", "NoSolutionFound"]
                };
                let got = res.as_ref().map(|_| "Ok").unwrap_or_else(|e| err_name(e));
                rep.count(&format!("solve_{got}"), 1);
                outcome_sig.push(got.len() as u64 + (pd as u64) * 16);
                if !allowed.contains(&got) {
                    if prop == "C08" {
                        rep.violate(format!("C08|{name}|solve:{got}-allowed-{}", allowed.join("/")), format!("call {i}: solve returned {got}; with problem {pd:?}, checker {vc}, the API allows {allowed:?}"), || replay(i, json!({})));
                    } else if let (Ok(path), Prob::Bad) = (&res, pd) {
                        // C02: a path was returned while the most recently installed problem is the one whose start the
                        // checker rejects - it answers that problem only if it begins at that start (C01 then has the rest)
                        rep.count("ok_paths_checked", 1);
                        let bad_start = &h.pbad.start_states[0];
                        if path.is_empty() || !K::same(&path[0], bad_start) {
                            rep.violate(format!("C02|{name}|history:first-state-not-latest-start"), format!("call {i}: solve returned a path that does not begin at the start of the most recently installed problem (whose start the checker rejects; an earlier problem was answered)"), || replay(i, json!({"path": path.iter().map(|s| K::to_v(s).json()).collect::<Vec<_>>()})));
                        }
                    }
                    return;
                }
                if let Ok(path) = &res {
                    // the answer must be for the most recently installed problem
                    let (start, goal) = if pd == Prob::P1 { (if twin_start { &h.twin.as_ref().unwrap().1 } else { &h.s1 }, &h.g1) } else { (&h.s2, &h.g2) };
                    if twin_start {
                        rep.count("ok_paths_from_a_twin_start", 1);
                    }
                    let bad = if path.is_empty() {
                        Some("empty-path")
                    } else if !K::same(&path[0], start) {
                        Some("first-state-not-latest-start")
                    } else if !goal.contains(path.last().unwrap()) {
                        Some("last-state-not-in-latest-goal")
                    } else if path.iter().any(|s| if in_world2 { !h.world2.free(s) } else { !h.rig.world.free(s) }) {
                        if in_world2 {
                            rep.count("paths_judged_by_the_second_checker", 0);
                        }
                        Some("state-rejected-by-the-latest-checker")
                    } else {
                        None
                    };
                    rep.count("ok_paths_checked", 1);
                    if in_world2 {
                        rep.count("ok_paths_under_the_second_checker", 1);
                    }
                    if pd == Prob::P2 {
                        rep.count("ok_paths_for_replaced_problem", 1);
                    }
                    rep.count("traces_validated", 1);
                    if let Some(b) = bad {
                        let key = if prop == "C02" { format!("C02|{name}|history:{b}") } else { format!("C08|{name}|stale-answer:{b}") };
                        rep.violate(key, format!("call {i}: solve returned a path that does not answer the most recently installed problem ({b})"), || {
                            replay(i, json!({"path": path.iter().map(|s| K::to_v(s).json()).collect::<Vec<_>>()}))
                        });
                        return;
                    }
                }
            }
        }
    }
    let mut sig: Vec<u64> = seq.iter().map(|o| *o as u64).collect();
    sig.extend(outcome_sig.iter());
    sig.push(h128(&sc.tag.bytes().map(|b| b as u64).collect::<Vec<_>>()) as u64);
    rep.distinct.insert(h128(&sig));
    rep.outcomes.insert(h128(&outcome_sig));
    rep.sample(|| json!({"scenario": sc.tag, "calls": format!("{seq:?}")}));
}

// ----------------------------------------------------------------------------------------------
// fault enumeration (C08)

#[derive(Clone, Debug)]
enum Fault {
    UniformFailsAt(usize, u8),
    GoalFailsAt(usize, u8),
    /// the sampler fails at every call from the k-th on (an exhausted or unsatisfiable sampler)
    UniformFailsFrom(usize, u8),
    GoalFailsFrom(usize, u8),
    Bias(f64),
    EmptyStarts,
    /// the public goal_bias field is assigned AFTER setup: constructed with .0, set to .1 before the solves
    BiasAfterSetup(f64, f64),
    /// setup(P1), solve, then setup with an EMPTY start list on the same object, then the solves
    EmptyStartsAfterLife,
    /// a first start state the checker accepts but the space bounds reject (every call still comes back)
    StartOutsideBounds,
    /// a degenerate value of one of the planner's public numeric parameters: 0 = extension step
    /// (connection radius for PRM), 1 = RRT* rewiring radius, 2 = PRM build time
    Param(u8, f64),
}

fn run_fault<K: Kit>(sc0: &Scenario, f: &Fault, rep: &mut Report) {
    let mut sc = sc0.clone();
    let pk = sc.params.pk;
    let name = pk.name();
    match f {
        Fault::GoalFailsAt(..) | Fault::GoalFailsFrom(..) => sc.params.bias = 1.0,
        Fault::Bias(b) => sc.params.bias = *b,
        Fault::BiasAfterSetup(b, _) => sc.params.bias = *b,
        Fault::Param(0, v) => sc.params.step = *v,
        Fault::Param(1, v) => sc.params.radius = *v,
        Fault::StartOutsideBounds => match crate::props_paths::out_of_bounds_start(&base_of(sc.kit)) {
            Some((spec, start)) => {
                sc.spec = spec;
                sc.start = start;
            }
            None => return, // (this kind of space has no bounds to leave)
        },
        _ => {}
    }
    let ak = api_kit(sc.kit);
    rep.count("evaluations", 1);
    rep.count("fault_cases", 1);
    let class = match f {
        Fault::UniformFailsAt(k, _) => format!("uniform-sampler-error@call{}", if *k == 0 { "0" } else { "k" }),
        Fault::GoalFailsAt(k, _) => format!("goal-sampler-error@call{}", if *k == 0 { "0" } else { "k" }),
        Fault::UniformFailsFrom(k, kind) => format!("uniform-sampler-fails-from-call{}/kind{kind}", if *k == 0 { "0" } else { "k" }),
        Fault::GoalFailsFrom(k, kind) => format!("goal-sampler-fails-from-call{}/kind{kind}", if *k == 0 { "0" } else { "k" }),
        Fault::Bias(b) => format!("goal-bias={b}"),
        Fault::EmptyStarts => "empty-start-list".to_string(),
        Fault::Param(w, v) => format!("{}={v}", ["step", "search-radius", "build-time"][*w as usize]),
        Fault::BiasAfterSetup(a, b) => format!("goal-bias={a}-then-{b}-after-setup"),
        Fault::EmptyStartsAfterLife => "empty-start-list-after-a-life".to_string(),
        Fault::StartOutsideBounds => "start-outside-bounds".to_string(),
    };
    let r = guarded(|| {
        let mut rig = Rig::<K>::new(&sc, false);
        match f {
            Fault::UniformFailsAt(k, kind) => rig.space.fail_at.set(Some((*k, *kind))),
            Fault::GoalFailsAt(k, kind) => rig.goal.fail_at.set(Some((*k, *kind))),
            Fault::UniformFailsFrom(k, kind) => rig.space.fail_from.set(Some((*k, *kind))),
            Fault::GoalFailsFrom(k, kind) => rig.goal.fail_from.set(Some((*k, *kind))),
            _ => {}
        }
        if matches!(f, Fault::EmptyStartsAfterLife) {
            // a first life with the ordinary problem: tree / roadmap exist when the empty problem arrives
            rig.drv.setup(rig.pd.clone(), rig.world.clone());
            let first: Vec<u8> = ak.build.iter().cycle().take(6).cloned().collect();
            if pk == Pk::Prm {
                let _ = rig.construct(&first);
            } else {
                let _ = rig.feed(&first);
            }
        }
        let pd = if matches!(f, Fault::EmptyStarts | Fault::EmptyStartsAfterLife) { Arc::new(Pd::<K> { space: rig.space.clone(), start_states: vec![], goal: rig.goal.clone() }) } else { rig.pd.clone() };
        let mut results: Vec<String> = Vec::new();
        rig.drv.setup(pd, rig.world.clone());
        if let Fault::BiasAfterSetup(_, b) = f {
            rig.drv.set_goal_bias(*b);
            if *b >= 1.0 {
                // every draw now comes from the goal sampler
                rig.goal.script.borrow_mut().extend(std::iter::repeat(0u8).take(64));
                rig.goal.mode.set(crate::seams::GoalMode::Cycle);
            }
        }
        // long scripts: the fault, not exhaustion, must end the call
        let letters: Vec<u8> = ak.build.iter().cycle().take(if matches!(f, Fault::Param(..) | Fault::BiasAfterSetup(..)) { 40 } else { 12 }).cloned().collect();
        rig.space.push_script(&letters);
        if pk == Pk::Prm {
            rig.drv.set_prm_timeout(if let Fault::Param(2, v) = f { *v } else { crate::drv::iters_secs(8) });
            results.push(match rig.drv.construct_roadmap() {
                Ok(()) => "Ok".into(),
                Err(e) => err_name(&e).into(),
            });
            results.push(match rig.drv.solve(LONG) {
                Ok(_) => "Ok".into(),
                Err(e) => err_name(&e).into(),
            });
        } else {
            for _ in 0..2 {
                oxmpl::verif::clock_reset(1_000_000);
                results.push(match rig.drv.solve(iters(8)) {
                    Ok(_) => "Ok".into(),
                    Err(e) => err_name(&e).into(),
                });
            }
        }
        let fault_reached = match f {
            Fault::UniformFailsAt(k, _) => rig.space.calls.get() > *k,
            Fault::GoalFailsAt(k, _) | Fault::GoalFailsFrom(k, _) => rig.goal.calls.get() > *k,
            Fault::UniformFailsFrom(k, _) => rig.space.calls.get() > *k,
            _ => true,
        };
        (results, fault_reached)
    });
    match r {
        Err(Caught::Panic(msg)) => {
            let loc = msg.rsplit(" @ ").next().unwrap_or("").rsplit('/').next().unwrap_or("").to_string();
            let file = loc.split(':').next().unwrap_or("").to_string();
            rep.violate(format!("C08|{name}|fault-panic|{class}|{file}"), format!("{class}: a planner call unwound instead of returning an error: {msg}"), || {
                json!({"kind": "fault", "prop": "C08", "scenario": sc.json(), "fault": format!("{f:?}"), "panic": msg})
            });
        }
        Err(Caught::Harness(m)) => rep.engine_error(format!("harness panic in fault case {f:?}: {m}")),
        Err(Caught::WorkCap(n)) => {
            // millions of callbacks inside one call: it keeps asking the failing sampler (or the
            // checker) and never comes back - "each call returns normally" is the property
            rep.violate(format!("C08|{name}|call-does-not-return|{class}"), format!("{class}: a planner call made {n} callbacks without returning"), || {
                json!({"kind": "fault", "prop": "C08", "scenario": sc.json(), "fault": format!("{f:?}"), "callbacks": n})
            });
        }
        // a build time that is zero, negative or not a number: construction has 40 scripted samples at its disposal
        // and a budget of at most a few deadline checks - using them all up means the deadline never fires
        Err(Caught::ScriptExhausted) if matches!(f, Fault::Param(2, v) if *v != f64::INFINITY) => {
            rep.violate(format!("C08|{name}|call-does-not-return|{class}"), format!("{class}: construct_roadmap drew every one of 40 scripted samples and kept going: with this build time the deadline never fires"), || {
                json!({"kind": "fault", "prop": "C08", "scenario": sc.json(), "fault": format!("{f:?}")})
            });
        }
        Err(_) => rep.engine_error(format!("script exhausted in fault case {f:?} of {}", sc.tag)),
        Ok((results, reached)) => {
            if reached {
                rep.count("faults_reached_without_unwinding", 1);
                // the failing call (or the next solve) must report some error
                let sampler_fault = matches!(f, Fault::UniformFailsAt(..) | Fault::GoalFailsAt(..) | Fault::UniformFailsFrom(..) | Fault::GoalFailsFrom(..));
                if sampler_fault && results.iter().all(|r| r == "Ok" || r == "Timeout") && !results.iter().any(|r| r != "Ok" && r != "Timeout") {
                    // a Timeout after a sampler failure means the failure was swallowed; Ok may be legitimate only if reached before the fault
                    if results.iter().all(|r| r == "Timeout") {
                        rep.violate(format!("C08|{name}|fault-swallowed|{class}"), format!("{class}: no call reported the sampler failure (results {results:?})"), || {
                            json!({"kind": "fault", "prop": "C08", "scenario": sc.json(), "fault": format!("{f:?}"), "results": results})
                        });
                    }
                }
                // an out-of-range parameter or an empty start list is reported as an error by every
                // solve call (neither a path nor a mere timeout)
                if let Fault::BiasAfterSetup(_, b) = f {
                    // what counts is the value the field has when solve is called
                    let valid_now = (0.0..=1.0).contains(b);
                    rep.count("bias_after_setup_cases", 1);
                    let bad = if valid_now { results.iter().any(|r| r != "Ok" && r != "Timeout") } else { results.iter().any(|r| r == "Ok" || r == "Timeout") };
                    if bad {
                        rep.violate(format!("C08|{name}|misuse-not-reported|{class}"), format!("{class}: solve answered {results:?} ({})", if valid_now { "every parameter is valid when solve is called" } else { "the bias is out of range when solve is called" }), || {
                            json!({"kind": "fault", "prop": "C08", "scenario": sc.json(), "fault": format!("{f:?}"), "results": results})
                        });
                    }
                }
                if matches!(f, Fault::Bias(_) | Fault::EmptyStarts | Fault::EmptyStartsAfterLife) {
                    let solves = if pk == Pk::Prm { &results[1..] } else { &results[..] };
                    rep.count("misuse_solves_checked", solves.len() as u64);
                    if solves.iter().any(|r| r == "Ok" || r == "Timeout") {
                        rep.violate(format!("C08|{name}|misuse-not-reported|{class}"), format!("{class}: solve did not report the misuse as an error (results {results:?})"), || {
                            json!({"kind": "fault", "prop": "C08", "scenario": sc.json(), "fault": format!("{f:?}"), "results": results})
                        });
                    }
                }
            } else {
                rep.count("faults_not_reached", 1);
            }
            rep.distinct.insert(h128(&format!("{f:?}{results:?}{}", sc.tag).bytes().map(|b| b as u64).collect::<Vec<_>>()));
        }
    }
}

/// The library's OWN samplers failing (C08: "failures ... are reported as errors rather than panics"): spaces without
/// bounds (R^n, SE(2), SE(3), a compound with an unbounded box) cannot be sampled uniformly. The
/// planners run over the REAL space type (no sampler seam) with the real seeded generator; every call must
/// come back without unwinding, and with goal bias 0 - where the first draw already fails - not with a path.
fn real_sampler_failures<K: Kit>(kit: &'static str, spec: &Spec, rep: &mut Report) {
    let base = api_scenario(kit, Pk::Rrt);
    for pk in Pk::ALL {
        for bias in [0.0, 0.5, 1.0] {
            for seed in [0u64, 1, 5] {
                let mut sc = api_scenario(kit, pk);
                sc.spec = spec.clone();
                sc.params.bias = bias;
                sc.params.seed = Some(seed);
                rep.count("evaluations", 1);
                rep.count("real_sampler_failure_cases", 1);
                let r = guarded(|| {
                    let rig = Rig::<K>::new(&base, false);
                    rig.goal_mode(crate::seams::GoalMode::Cycle);
                    let mut d = crate::drv::RawDrv::<K>::new(&sc.params);
                    let pd = Arc::new(crate::drv::RawPd::<K> { space: Arc::new(K::build(&sc.spec)), start_states: vec![rig.start.clone()], goal: rig.goal.clone() });
                    d.setup(pd, rig.world.clone());
                    let mut results: Vec<String> = Vec::new();
                    if pk == Pk::Prm {
                        d.set_prm_timeout(crate::drv::iters_secs(8));
                        oxmpl::verif::clock_reset(1_000_000);
                        results.push(match d.construct_roadmap() {
                            Ok(()) => "Ok".into(),
                            Err(e) => err_name(&e).into(),
                        });
                    }
                    for _ in 0..2 {
                        oxmpl::verif::clock_reset(1_000_000);
                        results.push(match d.solve(iters(8)) {
                            Ok(_) => "Ok".into(),
                            Err(e) => err_name(&e).into(),
                        });
                    }
                    results
                });
                let name = pk.name();
                let class = format!("unbounded-{kit}/bias{bias}");
                match r {
                    Err(Caught::Panic(msg)) => {
                        let file = msg.rsplit(" @ ").next().unwrap_or("").rsplit('/').next().unwrap_or("").split(':').next().unwrap_or("").to_string();
                        rep.violate(format!("C08|{name}|fault-panic|library-sampler-error|{file}"), format!("{class}: the space's own sampler cannot deliver and a planner call unwound instead of returning an error: {msg}"), || json!({"kind": "real-sampler-failure", "prop": "C08", "space": spec.json(), "planner": name, "goal_bias": bias, "seed": seed, "panic": msg}));
                    }
                    Err(Caught::WorkCap(n)) => rep.violate(format!("C08|{name}|call-does-not-return|library-sampler-error"), format!("{class}: a planner call made {n} callbacks without returning"), || json!({"kind": "real-sampler-failure", "prop": "C08", "space": spec.json(), "planner": name, "goal_bias": bias, "seed": seed})),
                    // the validity seam was handed a state of another shape than the space's states have (a compound with
                    // a component missing): only the planner can have passed it on, from a sampler that should have failed
                    Err(Caught::Harness(m)) if m.contains("spec/value mismatch") => rep.violate(format!("C08|{name}|fault-swallowed|library-sampler-error|malformed-state"), format!("{class}: instead of an error the sampler delivered a state of the wrong shape, and the planner handed it to the validity checker ({m})"), || json!({"kind": "real-sampler-failure", "prop": "C08", "space": spec.json(), "planner": name, "goal_bias": bias, "seed": seed})),
                    Err(Caught::Harness(m)) => rep.engine_error(format!("harness panic in real-sampler-failure case {class}/{name}: {m}")),
                    Err(_) => rep.engine_error(format!("real-sampler-failure case {class}/{name} could not run")),
                    Ok(results) => {
                        rep.count("real_sampler_failure_cases_returned", 1);
                        let solves = if pk == Pk::Prm { &results[1..] } else { &results[..] };
                        if bias == 0.0 && solves.iter().any(|r| r == "Ok") {
                            rep.violate(format!("C08|{name}|fault-swallowed|library-sampler-error"), format!("{class}: a path was returned although not a single state can be sampled (results {results:?})"), || json!({"kind": "real-sampler-failure", "prop": "C08", "space": spec.json(), "planner": name, "goal_bias": bias, "seed": seed, "results": results}));
                        }
                        rep.distinct.insert(h128(&format!("{class}{name}{seed}{results:?}").bytes().map(|b| b as u64).collect::<Vec<_>>()));
                    }
                }
            }
        }
    }
}

/// Longest call sequence explored (tree planners: 5-letter menu; PRM: 8-letter menu). PRM needs 5
/// calls for setup, construct, solve, set_problem_definition, solve.
fn seq_bounds(thorough: bool) -> (usize, usize) {
    if thorough {
        (7, 6)
    } else {
        (5, 5)
    }
}

/// The exploration itself (shared by `mc check C08` and the history half of `mc check C02`).
pub fn explore(prop: &'static str, tier: &'static str) -> Report {
    let thorough = tier != "quick";
    let (h, h_prm) = seq_bounds(thorough);
    let mut jobs: Vec<(Scenario, usize)> = Vec::new();
    for kit in KITS {
        for pk in Pk::ALL {
            let sc = api_scenario(kit, pk);
            let hh = if pk == Pk::Prm { h_prm } else { h };
            for len in 1..=hh {
                jobs.push((sc.clone(), len));
            }
        }
    }
    let mut rep = jobs
        .par_iter()
        .map(|(sc, len)| {
            let mut rep = Report::new();
            let m = menu(sc.params.pk);
            for_each_seq(&m, *len, &mut |seq| with_kit!(sc.kit, run_sequence(prop, sc, seq, (None, None), &mut rep)));
            // the same sequences (up to length 4) with a goal sampler that fails at its k-th call:
            // a failed (re-)setup must not leave anything of the previous problem behind
            if sc.params.pk != Pk::Prm && *len <= 4 {
                for f1 in [None, Some(0), Some(1)] {
                    for f2 in [None, Some(0), Some(1)] {
                        if (f1, f2) != (None, None) {
                            for_each_seq(&m, *len, &mut |seq| with_kit!(sc.kit, run_sequence(prop, sc, seq, (f1, f2), &mut rep)));
                        }
                    }
                }
            }
            rep
        })
        .reduce(Report::new, |mut a, b| {
            a.merge(b);
            a
        });
    if prop == "C08" {
        let mut faults: Vec<Fault> = Vec::new();
        for k in 0..6 {
            for kind in 0..2u8 {
                faults.push(Fault::UniformFailsAt(k, kind));
                faults.push(Fault::GoalFailsAt(k, kind));
                if k <= 3 {
                    faults.push(Fault::UniformFailsFrom(k, kind));
                    faults.push(Fault::GoalFailsFrom(k, kind));
                }
            }
        }
        for b in [-0.1, 1.5, f64::NAN, f64::INFINITY, f64::NEG_INFINITY, 1.0 + f64::EPSILON, -f64::MIN_POSITIVE, -5e-324, 2.0] {
            faults.push(Fault::Bias(b));
        }
        faults.push(Fault::EmptyStarts);
        faults.push(Fault::EmptyStartsAfterLife);
        faults.push(Fault::StartOutsideBounds);
        for (a, b) in [(0.05, 1.5), (0.0, -0.1), (0.05, f64::NAN), (1.5, 0.05), (-0.1, 0.0), (f64::NAN, 0.5)] {
            faults.push(Fault::BiasAfterSetup(a, b));
        }
        // degenerate numeric parameters: whatever a planner makes of them, every call comes back without unwinding
        for v in [0.0, -0.5, 1e-18, f64::MIN_POSITIVE, f64::INFINITY, f64::NAN] {
            faults.push(Fault::Param(0, v));
        }
        for v in [0.0, -1.0, f64::INFINITY, f64::NAN] {
            faults.push(Fault::Param(1, v));
        }
        for v in [-1e-9, -1.0, f64::NEG_INFINITY, 0.0, f64::NAN] {
            faults.push(Fault::Param(2, v));
        }
        let fjobs: Vec<(Scenario, Fault)> = KITS.iter().flat_map(|kit| Pk::ALL.iter().map(move |pk| api_scenario(kit, *pk))).flat_map(|sc| faults.iter().map(move |f| (sc.clone(), f.clone())).collect::<Vec<_>>()).collect();
        let fr = fjobs
            .par_iter()
            .map(|(sc, f)| {
                let mut rep = Report::new();
                if sc.params.pk == Pk::Prm && matches!(f, Fault::GoalFailsAt(..) | Fault::GoalFailsFrom(..) | Fault::Bias(_) | Fault::BiasAfterSetup(..)) {
                    return rep; // PRM has neither goal sampling nor a bias
                }
                match f {
                    Fault::Param(1, _) if sc.params.pk != Pk::Star => return rep,
                    Fault::Param(2, _) if sc.params.pk != Pk::Prm => return rep,
                    _ => {}
                }
                with_kit!(sc.kit, run_fault(sc, f, &mut rep));
                rep
            })
            .reduce(Report::new, |mut a, b| {
                a.merge(b);
                a
            });
        rep.merge(fr);
        // the library's own samplers failing, on the real space types
        use crate::kit::{Cmp, Rv, Se2, Se3};
        let rv = Spec::Rv { dim: 2, bounds: None, frac: None };
        real_sampler_failures::<Rv>("RealVector", &rv, &mut rep);
        real_sampler_failures::<Se2>("SE2", &Spec::Se2 { weight: 0.5, bounds: None }, &mut rep);
        real_sampler_failures::<Se3>("SE3", &Spec::Se3 { weight: 0.5, bounds: None }, &mut rep);
        real_sampler_failures::<Cmp>("Compound", &Spec::Cmp { parts: vec![rv.clone(), Spec::So2 { bounds: None, frac: None }], weights: vec![1.0, 0.5] }, &mut rep);
    }
    rep
}

pub fn run(prop: &'static str, tier: &'static str) -> i32 {
    let t0 = Instant::now();
    let (h, h_prm) = seq_bounds(tier != "quick");
    let rep = explore(prop, tier);
    let meta = CheckMeta {
        prop,
        tier,
        level: "model_checking",
        rule: if prop == "C08" {
            "every call sequence of length 1..h from new() over the menu {setup(P1), setup(P2), setup(P-invalid-start), solve (forward / reverse script)} (PRM: plus construct_roadmap, set_problem_definition x3) for 4 planners x 6 spaces, each call under catch_unwind and compared with a reference API automaton (allowed result classes, roadmap cleared by setup, answers for the latest problem); plus fault enumeration: uniform / goal sampler failing at call k for every k < 6 (2 error kinds), goal bias in {-0.1, 1.5, NaN, +-inf, 1+eps, -MIN_POSITIVE, -5e-324, 2} (each solve must report an error), empty start list; states = distinct (call sequence, outcome vector); transitions = API calls executed"
        } else {
            "the call-sequence exploration of C08 judged by C02's oracle: whenever a solve returns a path it starts bit-for-bit at the start of the most recently installed problem and ends in that problem's goal"
        },
        exhaustive: true,
        bounds: json!({"max_sequence_length": h, "max_sequence_length_prm": h_prm}),
        assumptions: vec!["scripted seams; logical clock budgets".into(), "P2 is P1 reversed (start at the goal centre, goal around the old start); the invalid start lies inside a far-away obstacle".into()],
        must_be_positive: if prop == "C08" { vec!["solve_Ok", "solve_PlannerUninitialised", "solve_InvalidStartState", "solve_UnsampledStateSpace", "ok_paths_for_replaced_problem", "fault_cases"] } else { vec!["ok_paths_checked", "ok_paths_for_replaced_problem"] },
    };
    finish(&meta, rep, t0)
}

#[allow(dead_code)]
fn _unused(_: V, _: Drv<crate::kit::Rv>) {}

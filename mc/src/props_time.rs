//! C06: deadlines, finiteness of an iteration, and never claiming an unreachable goal — all under
//! the logical clock. (1) deadline landing: for every sample sequence and EVERY callback index of
//! its execution the clock is jumped past the deadline inside that callback; (2) per-call work
//! cap over a resolution lattice; (3) infeasible worlds x all sample sequences.

use crate::catalog::{base_of, KITS};
use crate::drv::{err_name, iters, iters_secs, Pk};
use crate::explore::{for_each_seq, guarded, Caught, LONG};
use crate::kit::{Kit, Spec};
use crate::report::{finish, h128, CheckMeta, Report};
use crate::scen::{Rig, Scenario, WorldSpec};
use crate::seams;
use crate::with_kit;
use oxmpl::base::space::StateSpace;
use oxmpl::base::error::PlanningError;
use rayon::prelude::*;
use serde_json::{json, Value};
use std::time::{Duration, Instant};

fn replay(sc: &Scenario, part: &str, seq: &[u8], extra: Value) -> Value {
    json!({"kind": "time", "prop": "C06", "part": part, "scenario": sc.json(), "seq": seq, "detail": extra})
}

fn caught_to_report(sc: &Scenario, part: &str, seq: &[u8], c: Caught, rep: &mut Report) {
    let pk = sc.params.pk.name();
    match c {
        Caught::WorkCap(n) => rep.violate(
            format!("C06|{pk}|blocks-indefinitely|{}", resolution_class(&sc.spec)),
            format!("one planner call issued more than {n} validity queries without returning: it does not terminate in any useful sense"),
            || replay(sc, part, seq, json!({"validity_queries": n})),
        ),
        Caught::Panic(m) => {
            let loc = m.rsplit(" @ ").next().unwrap_or("").rsplit('/').next().unwrap_or("").to_string();
            rep.violate(format!("C06|{pk}|panic:{loc}"), format!("planner call unwound: {m}"), || replay(sc, part, seq, json!({"panic": m})))
        }
        Caught::ScriptExhausted => rep.violate(
            format!("C06|{pk}|iterations-after-deadline"),
            "the planner kept drawing samples after the deadline had passed (the scripted samples ran out)".into(),
            || replay(sc, part, seq, json!({})),
        ),
        Caught::Harness(m) => rep.engine_error(format!("harness panic in {}: {m}", sc.tag)),
    }
}

fn resolution_class(spec: &Spec) -> String {
    fn fr(s: &Spec) -> Option<f64> {
        match s {
            Spec::Rv { frac, .. } | Spec::So2 { frac, .. } | Spec::So3 { frac, .. } => *frac,
            Spec::Cmp { parts, .. } => parts.iter().find_map(fr),
            _ => None,
        }
    }
    match fr(spec) {
        None => "default-resolution".into(),
        Some(f) if f <= 0.0 => "resolution-fraction<=0".into(),
        Some(f) if f.is_nan() => "resolution-fraction-NaN".into(),
        Some(_) => "positive-resolution".into(),
    }
}

// ----------------------------------------------------------------------------------------------
// (1) deadline landing

/// scripted letters go to the goal sampler when the goal bias is 1 (then every sample is a goal sample)
fn push_letters<K: Kit>(rig: &Rig<K>, letters: &[u8]) {
    if rig.sc.params.bias >= 1.0 {
        rig.goal.script.borrow_mut().extend_from_slice(letters);
    } else {
        rig.space.push_script(letters);
    }
}

fn landing_tree<K: Kit>(sc: &Scenario, seq: &[u8], rep: &mut Report) {
    let pk = sc.params.pk.name();
    let d = seq.len();
    // reference run under the ticking clock: exactly d iterations
    let refrun = guarded(|| {
        let mut rig = Rig::<K>::new(sc, true);
        let base = seams::seq_now(); // callbacks made by setup() (RRT-Connect draws its goal root there)
        push_letters(&rig, seq);
        let r = rig.drv.solve(iters(d));
        (seams::seq_now(), r.is_ok(), base)
    });
    let (n, _ok, base) = match refrun {
        Ok(x) => x,
        Err(c) => return caught_to_report(sc, "landing-reference", seq, c, rep),
    };
    rep.count("evaluations", 1);
    for j in base..n {
        let run = guarded(|| {
            let mut rig = Rig::<K>::new(sc, true);
            oxmpl::verif::clock_reset(0); // time advances only by the jump
            seams::set_landing(j);
            let mut script = seq.to_vec();
            script.extend_from_slice(&[seq[0]; 3]);
            push_letters(&rig, &script);
            rig.goal.strict_script.set(rig.sc.params.bias >= 1.0); // a skipped landing must still end the call
            let r = rig.drv.solve(Duration::from_secs(1));
            let landed = seams::landed();
            let marks = seams::sample_marks();
            (r, landed, marks)
        });
        rep.count("landings", 1);
        rep.count("transitions", 1);
        match run {
            Err(Caught::ScriptExhausted) if seams::landing_skipped() => {
                // callback j precedes the call's timer: no deadline was injected, the run is void
                rep.count("landings_before_timer", 1);
                continue;
            }
            Err(c) => {
                caught_to_report(sc, "landing", seq, c, rep);
                return;
            }
            Ok((r, landed, marks)) => {
                let Some((at, kind)) = landed else {
                    // the call returned before callback j (it succeeded earlier): nothing to judge
                    rep.count("landings_after_return", 1);
                    continue;
                };
                rep.count(&format!("landed_in_callback_kind_{kind}"), 1);
                let later = marks.iter().filter(|(s, _)| *s > at).count();
                if later > 0 {
                    rep.violate(format!("C06|{pk}|new-iteration-after-deadline"), format!("the deadline passed inside callback #{j} but {later} more sample(s) were drawn afterwards"), || replay(sc, "landing", seq, json!({"landing_callback": j, "kind": kind})));
                    return;
                }
                match r {
                    Err(PlanningError::Timeout) => rep.count("landing_timeouts", 1),
                    Ok(_) => rep.count("landing_successes_in_the_same_iteration", 1),
                    Err(e) => {
                        rep.violate(format!("C06|{pk}|wrong-result-after-deadline:{}", err_name(&e)), format!("after the deadline passed the call returned {}", err_name(&e)), || replay(sc, "landing", seq, json!({"landing_callback": j})));
                        return;
                    }
                }
            }
        }
    }
    // T = 0: exactly one iteration
    let run0 = guarded(|| {
        let mut rig = Rig::<K>::new(sc, true);
        let mut script = seq.to_vec();
        script.extend_from_slice(&[seq[0]; 3]);
        push_letters(&rig, &script);
        let before = seams::sample_marks().len(); // setup may have drawn a goal root
        let r = rig.drv.solve(Duration::ZERO);
        (r.is_ok(), seams::sample_marks().len() - before, r.err())
    });
    match run0 {
        Err(c) => caught_to_report(sc, "zero-timeout", seq, c, rep),
        Ok((ok, samples, err)) => {
            rep.count("zero_timeout_calls", 1);
            if samples > 1 || (!ok && err != Some(PlanningError::Timeout)) {
                rep.violate(format!("C06|{pk}|zero-timeout-overrun"), format!("solve(0) drew {samples} samples and returned {:?}", err.map(|e| err_name(&e))), || replay(sc, "zero-timeout", seq, json!({})));
            }
        }
    }
}

fn landing_prm<K: Kit>(sc: &Scenario, seq: &[u8], rep: &mut Report) {
    let d = seq.len();
    let refrun = guarded(|| {
        let mut rig = Rig::<K>::new(sc, true);
        let _ = rig.construct(seq);
        seams::seq_now()
    });
    let n = match refrun {
        Ok(x) => x,
        Err(c) => return caught_to_report(sc, "landing-reference", seq, c, rep),
    };
    rep.count("evaluations", 1);
    for j in 0..n {
        let run = guarded(|| {
            let mut rig = Rig::<K>::new(sc, true);
            oxmpl::verif::clock_reset(0);
            seams::set_landing(j);
            let mut script = seq.to_vec();
            script.extend_from_slice(&[seq[0]; 3]);
            rig.space.push_script(&script);
            rig.drv.set_prm_timeout(1.0);
            let r = rig.drv.construct_roadmap();
            (r, seams::landed(), seams::sample_marks())
        });
        rep.count("landings", 1);
        rep.count("transitions", 1);
        match run {
            Err(Caught::ScriptExhausted) if seams::landing_skipped() => {
                rep.count("landings_before_timer", 1);
                continue;
            }
            Err(c) => {
                caught_to_report(sc, "landing", seq, c, rep);
                return;
            }
            Ok((r, landed, marks)) => {
                let Some((at, kind)) = landed else { continue };
                rep.count(&format!("landed_in_callback_kind_{kind}"), 1);
                let later = marks.iter().filter(|(s, _)| *s > at).count();
                if later > 0 || r.is_err() {
                    rep.violate("C06|PRM|new-iteration-after-deadline".into(), format!("construct_roadmap drew {later} more sample(s) after its build time had passed (result {:?})", r.err().map(|e| err_name(&e))), || replay(sc, "landing", seq, json!({"landing_callback": j})));
                    return;
                }
                rep.count("landing_timeouts", 1);
            }
        }
    }
    // build time 0 and a query whose BFS budget is one deadline check
    let run0 = guarded(|| {
        let mut rig = Rig::<K>::new(sc, true);
        let mut script = seq.to_vec();
        script.extend_from_slice(&[seq[0]; 3]);
        rig.space.push_script(&script);
        rig.drv.set_prm_timeout(0.0);
        let _ = rig.drv.construct_roadmap();
        let built = seams::sample_marks().len();
        // full roadmap for the query part
        let mut rig2 = Rig::<K>::new(sc, true);
        let _ = rig2.construct(seq);
        oxmpl::verif::clock_reset(1_000_000);
        let q = rig2.drv.solve(Duration::from_micros(500));
        let q0 = rig2.drv.solve(Duration::ZERO);
        (built, q.err(), q0.err())
    });
    match run0 {
        Err(c) => caught_to_report(sc, "zero-timeout", seq, c, rep),
        Ok((built, q, q0)) => {
            rep.count("zero_timeout_calls", 1);
            if built > 1 {
                rep.violate("C06|PRM|zero-timeout-overrun".into(), format!("construct_roadmap with build time 0 drew {built} samples"), || replay(sc, "zero-timeout", seq, json!({})));
            }
            for e in [q, q0].into_iter().flatten() {
                rep.count(&format!("short_query_{}", err_name(&e)), 1);
                if !matches!(e, PlanningError::Timeout | PlanningError::NoSolutionFound | PlanningError::UnsampledStateSpace) {
                    rep.violate(format!("C06|PRM|short-query:{}", err_name(&e)), format!("a query with a one-check budget returned {}", err_name(&e)), || replay(sc, "short-query", seq, json!({})));
                }
            }
        }
    }
    let _ = d;
}

// ----------------------------------------------------------------------------------------------
// (2) finite iteration: work cap per call over the resolution lattice

fn work_cap_case<K: Kit>(sc: &Scenario, seq: &[u8], rep: &mut Report) {
    let d = seq.len() as u64;
    rep.count("evaluations", 1);
    rep.count("work_cap_cases", 1);
    let run = guarded(|| {
        let mut rig = Rig::<K>::new(sc, true);
        // generous: a planner discretising at L/1000 with 20 motions per iteration stays below it
        // (degenerate-step jobs: a handful of queries per iteration is all a sane planner needs)
        let cap = if sc.tag.contains("/step") { 5_000 * d.max(1) } else { 1_000_000 * d.max(1) };
        seams::set_valid_cap(cap);
        if rig.is_prm() {
            let _ = rig.construct(seq);
            seams::set_valid_cap(1_000_000 * d.max(1));
            let r = rig.drv.solve(LONG);
            (r.is_ok(), seams::valid_count())
        } else {
            rig.space.push_script(seq);
            let r = rig.drv.solve(iters(seq.len()));
            (r.is_ok(), seams::valid_count())
        }
    });
    match run {
        Err(c) => caught_to_report(sc, "work-cap", seq, c, rep),
        Ok((_, n)) => rep.max("max_validity_queries_in_one_call", n),
    }
}

// ----------------------------------------------------------------------------------------------
// (3) infeasible worlds

fn infeasible_case<K: Kit>(sc: &Scenario, seq: &[u8], rep: &mut Report) {
    let pk = sc.params.pk.name();
    rep.count("evaluations", 1);
    rep.count("transitions", seq.len() as u64);
    let run = guarded(|| {
        let mut rig = Rig::<K>::new(sc, true);
        seams::set_valid_cap(50_000_000);
        if rig.is_prm() {
            let _ = rig.construct(seq);
            vec![rig.drv.solve(LONG).map(|p| p.len())]
        } else {
            let mut out: Vec<Result<usize, PlanningError>> = rig.feed(seq).into_iter().map(|(r, _)| r.map(|p| p.len())).collect();
            // the same samples once more on a fresh object, one solve call per sample: every call is cut by
            // its deadline after a single iteration, and whatever a cut call leaves behind (trees handed
            // back in another order, a flag) must not let a later call claim a path
            let mut rig2 = Rig::<K>::new(sc, true);
            seams::set_valid_cap(50_000_000);
            for l in seq {
                let (r, used) = rig2.solve_script(&[*l]);
                out.push(r.map(|p| p.len()));
                if used == 0 {
                    break;
                }
            }
            out
        }
    });
    match run {
        Err(c) => caught_to_report(sc, "infeasible", seq, c, rep),
        Ok(results) => {
            for r in results {
                match r {
                    Ok(n) => {
                        rep.violate(format!("C06|{pk}|path-claimed-in-infeasible-world|{}", sc.world.name), format!("a path of {n} states was returned although no valid path to the goal exists ({})", sc.world.name), || replay(sc, "infeasible", seq, json!({})));
                        return;
                    }
                    Err(e) => {
                        rep.count(&format!("infeasible_{}", err_name(&e)), 1);
                        if !matches!(e, PlanningError::Timeout | PlanningError::NoSolutionFound | PlanningError::UnsampledStateSpace) {
                            rep.violate(format!("C06|{pk}|infeasible-wrong-error:{}", err_name(&e)), format!("infeasible world reported as {}", err_name(&e)), || replay(sc, "infeasible", seq, json!({})));
                            return;
                        }
                    }
                }
            }
        }
    }
}

/// (3b) the planner object is first set up and driven in the obstacle-free world, then set up again
/// with the infeasible world's checker: whatever survives the re-setup must not produce a path.
fn infeasible_after_feasible_life<K: Kit>(sc: &Scenario, seq: &[u8], rep: &mut Report) {
    let pk = sc.params.pk.name();
    rep.count("evaluations", 1);
    rep.count("transitions", 2 * seq.len() as u64);
    let run = guarded(|| {
        let mut found = false;
        let mut res = Vec::new();
        // (second variant, RRT-Connect: the goal sampler fails once, exactly at the call the re-setup makes - whatever
        // the failed re-setup leaves of the first life's goal tree must not be planned with)
        for fail_at_resetup in [false, true] {
            if fail_at_resetup && sc.params.pk != Pk::Connect {
                continue;
            }
            let mut rig = Rig::<K>::new(sc, false);
            seams::set_valid_cap(50_000_000);
            let free = std::sync::Arc::new(crate::scen::build_world::<K>(&sc.spec, &WorldSpec { name: "free".into(), obst: vec![] }));
            rig.drv.setup(rig.pd.clone(), free);
            found |= if rig.is_prm() {
                let _ = rig.construct(seq);
                rig.drv.solve(LONG).is_ok()
            } else {
                rig.feed(seq).iter().any(|(r, _)| r.is_ok())
            };
            let (pd, w) = (rig.pd.clone(), rig.world.clone());
            if fail_at_resetup {
                rig.goal.fail_at.set(Some((rig.goal.calls.get(), 0)));
            }
            rig.drv.setup(pd, w);
            if rig.is_prm() {
                let _ = rig.construct(seq);
                res.push(rig.drv.solve(LONG).map(|p| p.len()));
            } else {
                res.extend(rig.feed(seq).into_iter().map(|(r, _)| r.map(|p| p.len())));
            }
        }
        (found, res)
    });
    match run {
        Err(c) => caught_to_report(sc, "infeasible-after-feasible-life", seq, c, rep),
        Ok((found, results)) => {
            rep.count("infeasible_after_feasible_life_cases", 1);
            if found {
                rep.count(&format!("feasible_life_paths_{pk}"), 1);
            }
            for r in results {
                if let Ok(n) = r {
                    rep.violate(format!("C06|{pk}|path-claimed-in-infeasible-world|after-feasible-life|{}", sc.world.name), format!("after a re-setup in an infeasible world ({}) a path of {n} states was returned", sc.world.name), || replay(sc, "infeasible-after-feasible-life", seq, json!({})));
                    return;
                }
            }
        }
    }
}

/// (3') every call returns although the goal sampler fails for good (free world: only the sampler is broken)
fn dead_goal_sampler_case<K: Kit>(sc: &Scenario, seq: &[u8], rep: &mut Report) {
    rep.count("evaluations", 1);
    rep.count("transitions", seq.len() as u64);
    let run = guarded(|| {
        let mut rig = Rig::<K>::new(sc, true);
        seams::set_valid_cap(50_000_000);
        rig.feed(seq).into_iter().map(|(r, _)| r.is_ok()).collect::<Vec<bool>>()
    });
    match run {
        Err(c) => caught_to_report(sc, "goal-sampler-dead", seq, c, rep),
        Ok(_) => rep.count("dead_goal_sampler_cases_returned", 1),
    }
}

/// (3c) infeasible worlds under the real samplers and the seeded generator: seed lattice x chunks of iterations.
fn infeasible_seeded<K: Kit>(sc0: &Scenario, _depth: usize, rep: &mut Report) {
    let pk = sc0.params.pk.name();
    for seed in 0..12u64 {
        let mut sc = sc0.clone();
        sc.params.seed = Some(seed);
        sc.params.bias = 0.2;
        rep.count("evaluations", 1);
        let run = guarded(|| {
            let mut rig = Rig::<K>::new(&sc, true);
            rig.pass_through();
            rig.goal_mode(crate::seams::GoalMode::Rng);
            seams::set_valid_cap(50_000_000);
            let mut out = Vec::new();
            if rig.is_prm() {
                rig.drv.set_prm_timeout(crate::drv::iters_secs(150));
                let _ = rig.drv.construct_roadmap();
                out.push(rig.drv.solve(LONG).map(|p| p.len()));
            } else {
                for _ in 0..3 {
                    oxmpl::verif::clock_reset(1_000_000);
                    out.push(rig.drv.solve(iters(150)).map(|p| p.len()));
                }
            }
            out
        });
        match run {
            Err(c) => return caught_to_report(&sc, "infeasible-seeded", &[], c, rep),
            Ok(results) => {
                rep.count("infeasible_seeded_runs", 1);
                rep.count("transitions", 450);
                for r in results {
                    match r {
                        Ok(n) => {
                            rep.violate(format!("C06|{pk}|path-claimed-in-infeasible-world|seeded|{}", sc.world.name), format!("seed {seed}: a path of {n} states was returned although no valid path to the goal exists ({})", sc.world.name), || replay(&sc, "infeasible-seeded", &[], json!({"seed": seed})));
                            return;
                        }
                        Err(e) => {
                            if !matches!(e, PlanningError::Timeout | PlanningError::NoSolutionFound | PlanningError::UnsampledStateSpace) {
                                rep.violate(format!("C06|{pk}|infeasible-wrong-error:{}", err_name(&e)), format!("infeasible world reported as {}", err_name(&e)), || replay(&sc, "infeasible-seeded", &[], json!({"seed": seed})));
                                return;
                            }
                        }
                    }
                }
            }
        }
    }
}

// ----------------------------------------------------------------------------------------------

#[derive(Clone)]
struct Job {
    sc: Scenario,
    part: u8, // 1 landing, 2 work cap, 3 infeasible
    letters: Vec<u8>,
    depth: usize,
}

fn with_frac(spec: &Spec, f: f64) -> Option<Spec> {
    let mut s = spec.clone();
    match &mut s {
        Spec::Rv { frac, .. } | Spec::So2 { frac, .. } | Spec::So3 { frac, .. } => *frac = Some(f),
        Spec::Cmp { parts, .. } => {
            for p in parts.iter_mut() {
                if let Spec::Rv { frac, .. } | Spec::So2 { frac, .. } | Spec::So3 { frac, .. } = p {
                    *frac = Some(f)
                }
            }
        }
        _ => return None,
    }
    Some(s)
}

fn farthest_from<K: Kit>(b: &crate::catalog::Base, s: &crate::kit::V) -> crate::kit::V {
    let sp = K::build(&b.spec);
    let x = K::from_v(s);
    b.alphabet.iter().max_by(|p, q| sp.distance(&x, &K::from_v(p)).partial_cmp(&sp.distance(&x, &K::from_v(q))).unwrap()).unwrap().clone()
}
fn marginal_ball_for<K: Kit>(b: &crate::catalog::Base, t: &crate::kit::V, toward: &crate::kit::V, r: f64, depth: f64) -> crate::scen::ObstSpec {
    crate::scen::marginal_ball::<K>(&b.spec, t, toward, r, depth)
}

fn jobs(tier: &str) -> Vec<Job> {
    let thorough = tier != "quick";
    let mut out = Vec::new();
    for kit in KITS {
        let b = base_of(kit);
        let deep = matches!(kit, "RealVector" | "SO2" | "SO3");
        for pk in Pk::ALL {
            // (1) landing: sub-alphabet sequences, free world and one obstacle
            let worlds = vec![b.world_free(), b.world_named("subset0001", vec![b.obstacles[0].clone()])];
            for w in &worlds {
                let radii: Vec<f64> = if pk == Pk::Star { vec![2.5] } else { vec![1.0] };
                for rm in radii {
                    let step = if pk == Pk::Prm { 1.6 } else { 1.0 };
                    let sc = b.scenario(w.clone(), b.params(pk, step, rm, 0.0), &format!("C06/landing/{kit}/{}/{}", w.name, pk.name()));
                    out.push(Job { sc, part: 1, letters: b.sub4.clone(), depth: if thorough { 5 } else { 3 } });
                    if thorough && deep {
                        let sc = b.scenario(w.clone(), b.params(pk, step, rm, 0.0), &format!("C06/landing-full-alphabet/{kit}/{}/{}", w.name, pk.name()));
                        out.push(Job { sc, part: 1, letters: (0..b.alphabet.len() as u8).collect(), depth: 3 });
                    }
                }
                // RRT-Connect whose first goal root is rejected by the checker (it re-samples the root at the
                // top of solve): the time spent there counts against the same limit
                if pk == Pk::Connect {
                    let mut sc = b.scenario(b.world_named("goal-overlap", vec![b.goal_overlap.clone()]), b.params(pk, 1.0, 1.0, 0.0), &format!("C06/landing-invalid-root/{kit}/{}", pk.name()));
                    sc.goal_root = 1;
                    out.push(Job { sc, part: 1, letters: b.sub4.clone(), depth: if thorough { 4 } else { 3 } });
                }
                // goal bias 1: every sample comes from the goal sampler, so the deadline also lands
                // inside goal-sampler callbacks (letters index the goal samples)
                if pk != Pk::Prm {
                    let mut sc = b.scenario(w.clone(), b.params(pk, 0.6, 2.5, 1.0), &format!("C06/landing-bias1/{kit}/{}/{}", w.name, pk.name()));
                    sc.alphabet = sc.goal_samples.clone();
                    out.push(Job { sc, part: 1, letters: (0..b.goal_samples.len() as u8).collect(), depth: if thorough { 6 } else { 4 } });
                }
            }
            // (2) work cap over the resolution lattice (the setters accept and store these)
            for f in [1.0, 0.05, 0.01, 1e-3, 0.0, -1.0, f64::NAN] {
                let Some(spec) = with_frac(&b.spec, f) else { continue };
                let mut sc = b.scenario(b.world_named("subset0001", vec![b.obstacles[0].clone()]), b.params(pk, if pk == Pk::Prm { 1.6 } else { 1.0 }, 2.5, 0.0), &format!("C06/workcap/{kit}/frac{f}/{}", pk.name()));
                sc.spec = spec;
                out.push(Job { sc, part: 2, letters: b.sub3.clone(), depth: 2 });
            }
            // (2') degenerate extension steps (0, below the resolution of the coordinates, negative): an
            // iteration that makes no progress is still one iteration, and the deadline is still consulted
            if pk != Pk::Prm {
                for sm in [0.0, 1e-18, -0.5] {
                    for w in [b.world_free(), b.world_named("subset0001", vec![b.obstacles[0].clone()])] {
                        let sc = b.scenario(w.clone(), b.params(pk, sm, 2.5, 0.0), &format!("C06/workcap/{kit}/{}/step{sm}/{}", w.name, pk.name()));
                        out.push(Job { sc, part: 2, letters: b.sub3.clone(), depth: 3 });
                    }
                }
            }
            // (2'') a start the checker accepts but the bounds reject: every call still comes back on time
            if let Some((spec, start)) = crate::props_paths::out_of_bounds_start(&b) {
                let mut sc = b.scenario(b.world_free(), b.params(pk, if pk == Pk::Prm { 1.6 } else { 1.0 }, 2.5, 0.0), &format!("C06/workcap/{kit}/start-outside-bounds/step1/{}", pk.name()));
                sc.spec = spec;
                sc.start = start;
                out.push(Job { sc, part: 2, letters: b.sub3.clone(), depth: 2 });
            }
            // (3') a goal sampler that can never deliver (fails at every call from its k-th on): the call
            // must come back with an error, not keep asking
            if pk != Pk::Prm {
                for k in [0usize, 1, 2] {
                    for kind in [0u8, 1] {
                        for bias in [1.0, 0.0] {
                            let mut sc = b.scenario(b.world_free(), b.params(pk, 1.0, 2.5, bias), &format!("C06/goal-sampler-dead/{kit}/{}/from{k}/kind{kind}/bias{bias}", pk.name()));
                            sc.goal_fail_from = Some((k, kind));
                            if bias >= 1.0 {
                                sc.alphabet = sc.goal_samples.clone();
                            }
                            let letters: Vec<u8> = if bias >= 1.0 { (0..b.goal_samples.len() as u8).collect() } else { b.sub3.clone() };
                            out.push(Job { sc, part: 6, letters, depth: 2 });
                        }
                    }
                }
            }
            // (3) infeasible worlds x all sample sequences
            let inf: Vec<WorldSpec> = vec![
                b.world_named("goal-sealed-off", vec![b.seal_goal.clone()]),
                b.world_named("goal-region-entirely-invalid", vec![b.goal_dead.clone()]),
                b.world_named("start-sealed-in", vec![b.seal_start.clone()]),
            ];
            // the only goal sample sits marginally (0.03 L) inside an obstacle that swallows the whole
            // (tiny) goal region: infeasible, but a goal-side tree rooted there could grow outwards
            {
                let l = crate::refspace::lvs(&b.spec);
                let s1 = b.goal_samples[1].clone();
                let far = with_kit!(kit, farthest_from(&b, &s1));
                let ob = with_kit!(kit, marginal_ball_for(&b, &s1, &far, 2.5 * l, 0.03 * l));
                for sm in [1.0, 0.3] {
                    let mut sc = b.scenario(b.world_named("goal-sample-marginally-inside", vec![ob.clone()]), b.params(pk, if pk == Pk::Prm { 1.6 } else { sm }, 2.5, 0.0), &format!("C06/infeasible/{kit}/goal-sample-marginally-inside/{}x{sm}", pk.name()));
                    sc.goal_samples = vec![s1.clone()];
                    sc.goal_balls = vec![(s1.clone(), 0.01 * l)];
                    let depth = if deep { 3 } else { 2 };
                    out.push(Job { sc: sc.clone(), part: 3, letters: (0..b.alphabet.len() as u8).collect(), depth });
                    out.push(Job { sc, part: 5, letters: vec![0], depth: 1 });
                }
            }
            // (3'') spaces WITHOUT bounds (their resolution comes from a fallback extent, uniform sampling is an
            // error there, so every sample is a goal sample): the sealed goal stays unreachable
            if pk != Pk::Prm {
                let unbounded = match &b.spec {
                    Spec::Rv { dim, frac, .. } => Some(Spec::Rv { dim: *dim, bounds: None, frac: *frac }),
                    Spec::Se2 { weight, .. } => Some(Spec::Se2 { weight: *weight, bounds: None }),
                    Spec::Se3 { weight, .. } => Some(Spec::Se3 { weight: *weight, bounds: None }),
                    _ => None,
                };
                if let Some(spec) = unbounded {
                    for sm in [0.6, 1.0, 1e6] {
                        let mut sc = b.scenario(b.world_named("goal-sealed-off", vec![b.seal_goal.clone()]), b.params(pk, sm, 2.5, 1.0), &format!("C06/infeasible/{kit}/unbounded-space/goal-sealed-off/{}x{sm}/bias1", pk.name()));
                        sc.spec = spec.clone();
                        sc.alphabet = sc.goal_samples.clone();
                        out.push(Job { sc, part: 3, letters: (0..b.goal_samples.len() as u8).collect(), depth: if thorough { 6 } else { 4 } });
                    }
                }
            }
            // (3''') the start stored in a NON-CANONICAL representation (angle + 4 pi, -q): the sealed goal stays sealed
            if let Some(start) = crate::props_paths::noncanonical(&b.alphabet[b.start]) {
                for sm in [1.0, 1e6] {
                    let smm = if pk == Pk::Prm && sm == 1.0 { 1.6 } else { sm };
                    let mut sc = b.scenario(b.world_named("goal-sealed-off", vec![b.seal_goal.clone()]), b.params(pk, smm, 2.5, 0.0), &format!("C06/infeasible/{kit}/goal-sealed-off/non-canonical-start/{}x{sm}", pk.name()));
                    sc.start = start.clone();
                    out.push(Job { sc, part: 3, letters: (0..b.alphabet.len() as u8).collect(), depth: if deep { 3 } else { 2 } });
                }
            }
            for w in &inf {
                for sm in [1.0, 1e6] {
                    let roots: Vec<u8> = if pk == Pk::Connect { vec![0, 1] } else { vec![0] };
                    for root in roots {
                        // PRM links strictly inside its radius and the alphabet's neighbours are exactly one unit apart
                        let smm = if pk == Pk::Prm && sm == 1.0 { 1.6 } else { sm };
                        let mut sc = b.scenario(w.clone(), b.params(pk, smm, 2.5, 0.0), &format!("C06/infeasible/{kit}/{}/{}x{sm}/root{root}", w.name, pk.name()));
                        sc.goal_root = root;
                        let depth = match (thorough, deep) {
                            (false, true) => 3,
                            (false, false) => 2,
                            (true, true) => 4,
                            (true, false) => 3,
                        };
                        out.push(Job { sc: sc.clone(), part: 3, letters: (0..b.alphabet.len() as u8).collect(), depth });
                        if sm == 1.0 && root == 0 {
                            // the same planner object first lives in the obstacle-free world (tree / roadmap
                            // built there), then is set up again in the infeasible one
                            out.push(Job { sc: sc.clone(), part: 4, letters: b.sub4.clone(), depth: if thorough { 5 } else { 4 } });
                            // real samplers and seeded generator, a lattice of seeds, hundreds of iterations
                            out.push(Job { sc, part: 5, letters: vec![0], depth: 1 });
                        }
                    }
                }
            }
        }
    }
    out
}

fn run_job<K: Kit>(job: &Job, rep: &mut Report) {
    for_each_seq(&job.letters, job.depth, &[], |seq| {
        crate::explore::watch_desc(|| replay(&job.sc, "hang", seq, json!({})).to_string());
        match job.part {
            1 => {
                if job.sc.params.pk == Pk::Prm {
                    landing_prm::<K>(&job.sc, seq, rep)
                } else {
                    landing_tree::<K>(&job.sc, seq, rep)
                }
            }
            2 => work_cap_case::<K>(&job.sc, seq, rep),
            4 => infeasible_after_feasible_life::<K>(&job.sc, seq, rep),
            5 => infeasible_seeded::<K>(&job.sc, job.depth, rep),
            6 => dead_goal_sampler_case::<K>(&job.sc, seq, rep),
            _ => infeasible_case::<K>(&job.sc, seq, rep),
        }
        rep.distinct.insert(h128(&[job.part as u64, h128(&job.sc.tag.bytes().map(|b| b as u64).collect::<Vec<_>>()) as u64, h128(&seq.iter().map(|x| *x as u64).collect::<Vec<_>>()) as u64]));
    });
    let part_name = ["", "deadline landing in every callback", "work cap per call", "infeasible world", "infeasible world after a life in the free world", "infeasible world, seeded deep runs", "goal sampler that never delivers"][job.part as usize];
    rep.sample(|| json!({"scenario": job.sc.tag, "part": part_name, "letters": job.letters, "depth": job.depth}));
}

pub fn run(tier: &'static str) -> i32 {
    let t0 = Instant::now();
    let all = jobs(tier);
    let rep = all
        .par_iter()
        .map(|j| {
            let mut rep = Report::new();
            with_kit!(j.sc.kit, run_job(j, &mut rep));
            rep
        })
        .reduce(Report::new, |mut a, b| {
            a.merge(b);
            a
        });
    let mut rep = rep;
    let l = rep.get("landings");
    rep.count("traces_validated", l);
    let meta = CheckMeta {
        prop: "C06",
        tier,
        level: "model_checking",
        rule: "(1) for every sample sequence of the sub-alphabet up to the depth bound and EVERY callback index j of its execution (sampler, goal sampler, validity query, goal predicate) the logical clock is jumped past the deadline inside callback j: afterwards no sample may be drawn, the call returns Timeout (or Ok if that iteration reached the goal); also timeout 0; PRM build time likewise, PRM query with a one-check budget. (2) every call runs under a validity-query cap (1e6 per budgeted iteration) over the resolution lattice {1, .05, .01, 1e-3, 0, -1, NaN}. (3) goal sealed off / goal region entirely invalid / start sealed in x all sample sequences to the depth bound x 4 planners x both RRT-Connect roots: never Ok. states = distinct (part, scenario, sequence); transitions = deadline landings + iterations",
        exhaustive: true,
        bounds: json!({"jobs": all.len()}),
        assumptions: vec![
            "time is logical: the bound `T plus one iteration` is decided as `the deadline is consulted before every iteration and nothing but the rest of the current iteration runs after it has passed` plus `one iteration is finite` (DESIGN 1.3)".into(),
            "a sampler call is the first action of every iteration in all four planners".into(),
        ],
        must_be_positive: vec!["landings", "landing_timeouts", "landing_successes_in_the_same_iteration", "landed_in_callback_kind_0", "landed_in_callback_kind_1", "landed_in_callback_kind_2", "landed_in_callback_kind_3", "infeasible_after_feasible_life_cases", "infeasible_seeded_runs", "dead_goal_sampler_cases_returned", "feasible_life_paths_PRM", "feasible_life_paths_RRT", "feasible_life_paths_RRTStar", "feasible_life_paths_RRTConnect", "zero_timeout_calls", "work_cap_cases", "infeasible_Timeout", "infeasible_NoSolutionFound"],
    };
    finish(&meta, rep, t0)
}

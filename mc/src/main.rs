//! mc — model-checking harness for oxmpl. See /verif/DESIGN.md.
mod catalog;
mod drv;
mod explore;
mod kit;
mod oracles;
mod bfs;
mod props_paths;
mod props_api;
mod props_bounds;
mod props_deep;
mod props_prm;
mod props_py;
mod props_repro;
mod entropy;
mod props_space;
mod props_time;
mod props_uniform;
mod lattice;
mod rngseam;
mod props_tree;
mod refspace;
mod report;
mod scen;
mod seams;

use report::out;

fn usage() -> i32 {
    out("usage: mc check <C01..C20> <quick|thorough> | mc replay <file>");
    2
}

fn main() {
    report::hush_stdout();
    explore::install_panic_hook();
    let args: Vec<String> = std::env::args().collect();
    let threads = std::env::var("MC_THREADS").ok().and_then(|s| s.parse().ok()).unwrap_or(16usize);
    rayon::ThreadPoolBuilder::new().num_threads(threads).stack_size(64 << 20).build_global().ok();
    let code = match args.get(1).map(|s| s.as_str()) {
        Some("check") => {
            let prop: &'static str = Box::leak(args.get(2).cloned().unwrap_or_default().into_boxed_str());
            let tier: &'static str = match args.get(3).map(|s| s.as_str()) {
                Some("thorough") => "thorough",
                _ => "quick",
            };
            let limit = std::env::var("MC_HANG_SECS").ok().and_then(|s| s.parse().ok()).unwrap_or(if tier == "quick" { 300 } else { 900 });
            explore::start_watchdog(limit, prop.to_string(), tier.to_string());
            match prop {
                "C01" | "C02" | "C03" | "C04" | "C05" => props_paths::run(prop, tier),
                "C15" | "C16" | "C17" => props_tree::run(prop, tier),
                "C18" => props_prm::run(tier),
                "C09" | "C10" | "C13" => props_space::run(prop, tier),
                "C11" => props_bounds::run_c11(tier),
                "C12" => props_bounds::run_c12(tier),
                "C14" => props_uniform::run(tier),
                "C07" => props_repro::run(tier),
                "C06" => props_time::run(tier),
                "C19" => props_py::run_c19(tier),
                "C20" => props_py::run_c20(tier),
                "C08" => props_api::run("C08", tier),
                _ => usage(),
            }
        }
        Some("replay") => {
            let Some(p) = args.get(2) else { std::process::exit(usage()) };
            let text = std::fs::read_to_string(p).expect("read replay file");
            let v: serde_json::Value = serde_json::from_str(&text).expect("parse replay file");
            let r = &v["replay"];
            match r["kind"].as_str() {
                Some("paths") => props_paths::replay(r),
                Some("deep") => props_deep::replay_file(r),
                Some("tree") => props_tree::replay_file(r),
                Some("prm") => props_prm::replay_file(r),
                Some("repro") => props_repro::replay_file(r),
                // no single-case replay for this kind of finding: the wrapper re-runs the (deterministic)
                // quick check and looks for the same finding key
                _ => 3,
            }
        }
        _ => usage(),
    };
    std::process::exit(code);
}

//! Independent reference models of the state spaces, on the uniform value type `V`.
//! Deliberately boring: Euclidean norm, angle reduction with an extended-precision 2*pi,
//! quaternion angle via atan2 of the relative rotation, weighted l2 composition.

use crate::kit::{Spec, V};
use std::f64::consts::PI;

// 2*pi split into three doubles (hi + mid + lo), hi = f64 nearest to 2*pi.
pub const TWO_PI_HI: f64 = 6.283185307179586;
pub const TWO_PI_MID: f64 = 2.4492935982947064e-16;
pub const TWO_PI_LO: f64 = -5.989539619436679e-33;

/// x reduced to (-pi, pi] (as a real number, up to ~1e-16 relative to max(|x|, pi) for |x| < 1e15).
pub fn wrap_ref(x: f64) -> f64 {
    if !x.is_finite() {
        return f64::NAN;
    }
    let k = (x / TWO_PI_HI).round();
    let mut r = (-k).mul_add(TWO_PI_HI, x);
    r = (-k).mul_add(TWO_PI_MID, r);
    r = (-k).mul_add(TWO_PI_LO, r);
    // r may be marginally outside because of the rounding of k
    if r > PI {
        r -= TWO_PI_HI;
        r -= TWO_PI_MID;
    } else if r < -PI {
        r += TWO_PI_HI;
        r += TWO_PI_MID;
    }
    r
}

/// Tolerance (absolute, radians) with which an angle of magnitude |x| is known modulo 2 pi.
pub fn angle_tol(x: f64) -> f64 {
    4.0 * f64::EPSILON * x.abs().max(PI)
}

pub fn so2_dist(a: f64, b: f64) -> f64 {
    // reduce each, subtract, reduce again
    let d = wrap_ref(wrap_ref(a) - wrap_ref(b));
    d.abs().min(PI)
}

pub fn quat_mul(a: &[f64; 4], b: &[f64; 4]) -> [f64; 4] {
    // (x,y,z,w)
    let (ax, ay, az, aw) = (a[0], a[1], a[2], a[3]);
    let (bx, by, bz, bw) = (b[0], b[1], b[2], b[3]);
    [
        aw * bx + ax * bw + ay * bz - az * by,
        aw * by - ax * bz + ay * bw + az * bx,
        aw * bz + ax * by - ay * bx + az * bw,
        aw * bw - ax * bx - ay * by - az * bz,
    ]
}
pub fn quat_conj(a: &[f64; 4]) -> [f64; 4] {
    [-a[0], -a[1], -a[2], a[3]]
}
pub fn quat_norm(a: &[f64; 4]) -> f64 {
    (a[0] * a[0] + a[1] * a[1] + a[2] * a[2] + a[3] * a[3]).sqrt()
}
/// Rotation angle between two unit quaternions, in [0, pi]; well-conditioned everywhere.
pub fn so3_dist(a: &[f64; 4], b: &[f64; 4]) -> f64 {
    let r = quat_mul(&quat_conj(a), b);
    let v = (r[0] * r[0] + r[1] * r[1] + r[2] * r[2]).sqrt();
    2.0 * v.atan2(r[3].abs())
}

pub fn rv_dist(a: &[f64], b: &[f64]) -> f64 {
    let m = a.iter().zip(b).map(|(x, y)| (x - y).abs()).fold(0.0, f64::max);
    if m == 0.0 || !m.is_finite() {
        return m;
    }
    let s: f64 = a.iter().zip(b).map(|(x, y)| ((x - y) / m).powi(2)).sum();
    m * s.sqrt()
}

/// View SE2/SE3 as the compound they are documented to be.
pub fn as_parts(spec: &Spec) -> Option<(Vec<Spec>, Vec<f64>)> {
    match spec {
        Spec::Cmp { parts, weights } => Some((parts.clone(), weights.clone())),
        Spec::Se2 { weight, bounds } => {
            let (rb, ab) = match bounds {
                Some(b) => (Some(vec![b[0], b[1]]), Some(b[2])),
                None => (None, None),
            };
            Some((vec![Spec::Rv { dim: 2, bounds: rb, frac: None }, Spec::So2 { bounds: ab, frac: None }], vec![1.0, *weight]))
        }
        Spec::Se3 { weight, bounds } => {
            let rb = bounds.as_ref().map(|b| vec![b[0], b[1], b[2]]);
            Some((vec![Spec::Rv { dim: 3, bounds: rb, frac: None }, Spec::So3 { bounds: None, frac: None }], vec![1.0, *weight]))
        }
        _ => None,
    }
}

pub fn dist(spec: &Spec, a: &V, b: &V) -> f64 {
    match (spec, a, b) {
        (Spec::Rv { .. }, V::Rv(x), V::Rv(y)) => rv_dist(x, y),
        (Spec::So2 { .. }, V::So2(x), V::So2(y)) => so2_dist(*x, *y),
        (Spec::So3 { .. }, V::So3(x), V::So3(y)) => so3_dist(x, y),
        (_, V::Cmp(x), V::Cmp(y)) => {
            let (parts, w) = as_parts(spec).expect("compound spec");
            let mut s = 0.0;
            for i in 0..parts.len() {
                let d = dist(&parts[i], &x[i], &y[i]) * w[i];
                s += d * d;
            }
            s.sqrt()
        }
        _ => panic!("spec/value mismatch in dist: {spec:?}"),
    }
}

/// Effective (stored) bounds of an SO(2) spec: the constructor clamps to [-pi, pi].
pub fn so2_bounds(b: &Option<(f64, f64)>) -> (f64, f64) {
    match b {
        Some((l, u)) => (l.max(-PI), u.min(PI)),
        None => (-PI, PI),
    }
}

/// Independent bounds model with an explicit tolerance policy:
/// box: l - tol <= x <= u + tol with tol = rel*(1+|bound|);
/// SO(2): canonical angle within [l - tol, u + tol];
/// SO(3): angle from the cone centre <= radius + tol_ang.
pub fn in_bounds(spec: &Spec, v: &V, rel: f64, tol_ang: f64) -> bool {
    match (spec, v) {
        (Spec::Rv { bounds, dim, .. }, V::Rv(x)) => {
            if x.len() != *dim {
                return false;
            }
            match bounds {
                None => x.iter().all(|c| !c.is_nan()),
                Some(b) => x.iter().zip(b).all(|(c, (l, u))| *c >= l - rel * (1.0 + l.abs()) && *c <= u + rel * (1.0 + u.abs())),
            }
        }
        (Spec::So2 { bounds, .. }, V::So2(a)) => {
            let (l, u) = so2_bounds(bounds);
            let c = wrap_ref(*a);
            let t = rel * (1.0 + PI) + angle_tol(*a);
            // the seam: -pi and pi are the same configuration
            let inb = |c: f64| c >= l - t && c <= u + t;
            inb(c) || ((c - PI).abs() <= t && inb(-PI)) || ((c + PI).abs() <= t && inb(PI))
        }
        (Spec::So3 { bounds, .. }, V::So3(q)) => match bounds {
            None => true,
            Some((c, r)) => so3_dist(c, q) <= r.min(PI) + tol_ang,
        },
        (_, V::Cmp(x)) => {
            let (parts, _) = as_parts(spec).expect("compound spec");
            parts.iter().zip(x).all(|(p, c)| in_bounds(p, c, rel, tol_ang))
        }
        _ => panic!("spec/value mismatch in in_bounds"),
    }
}

/// Longest-valid-segment length predicted from the spec (default fraction 0.05).
pub fn lvs(spec: &Spec) -> f64 {
    match spec {
        Spec::Rv { bounds, frac, .. } => {
            let ext = match bounds {
                Some(b) if b.iter().all(|(l, u)| l.is_finite() && u.is_finite()) => {
                    b.iter().map(|(l, u)| (u - l).powi(2)).sum::<f64>().sqrt()
                }
                _ => 1.0,
            };
            ext * eff_frac(*frac)
        }
        Spec::So2 { frac, .. } => PI * eff_frac(*frac),
        Spec::So3 { frac, .. } => 0.5 * PI * eff_frac(*frac),
        _ => {
            let (parts, w) = as_parts(spec).unwrap();
            parts.iter().zip(&w).map(|(p, w)| (lvs(p) * w).powi(2)).sum::<f64>().sqrt()
        }
    }
}
fn eff_frac(f: Option<f64>) -> f64 {
    match f {
        None => 0.05,
        Some(f) if f > 0.0 && f <= 1.0 => f,
        Some(f) if f <= 0.0 => 0.0,
        Some(f) if f.is_nan() => f64::NAN,
        Some(_) => 1.0,
    }
}

//! Deterministic catalog of spaces, alphabets, worlds and parameter lattices (DESIGN §1.6).
//! Everything here is data; replay files refer to catalog entries by construction arguments.

use crate::drv::{Params, Pk};
use crate::kit::{Spec, V};
use crate::scen::{ObstSpec, Scenario, WorldSpec};
use std::f64::consts::PI;

#[derive(Clone, Debug)]
pub struct Base {
    pub kit: &'static str,
    pub spec: Spec,
    pub alphabet: Vec<V>,
    /// index of the start in the alphabet
    pub start: usize,
    pub goal_ball: (V, f64),
    /// goal samples (index 0 = canonical goal, always inside goal_ball)
    pub goal_samples: Vec<V>,
    /// candidate obstacles whose subsets form the world lattice
    pub obstacles: Vec<ObstSpec>,
    /// obstacle placing the start marginally (0.01) inside
    pub marginal: ObstSpec,
    /// obstacle overlapping the goal region (covers goal_samples[1] but not [0])
    pub goal_overlap: ObstSpec,
    /// shell sealing the goal off (thickness >= 2L)
    pub seal_goal: ObstSpec,
    /// shell sealing the start in
    pub seal_start: ObstSpec,
    /// obstacle covering the whole goal region
    pub goal_dead: ObstSpec,
    /// step unit: distance start -> alphabet "A" exactly
    pub unit: f64,
    /// a 4-letter sub-alphabet for deep exploration
    pub sub4: Vec<u8>,
    /// a 3-letter sub-alphabet
    pub sub3: Vec<u8>,
}

fn rv2(x: f64, y: f64) -> V {
    V::Rv(vec![x, y])
}
pub fn quat_axis_angle(axis: [f64; 3], deg: f64) -> [f64; 4] {
    let n = (axis[0] * axis[0] + axis[1] * axis[1] + axis[2] * axis[2]).sqrt();
    let h = deg.to_radians() * 0.5;
    let s = h.sin() / n;
    [axis[0] * s, axis[1] * s, axis[2] * s, h.cos()]
}
fn q(axis: [f64; 3], deg: f64) -> V {
    V::So3(quat_axis_angle(axis, deg))
}
const X: [f64; 3] = [1.0, 0.0, 0.0];
const Y: [f64; 3] = [0.0, 1.0, 0.0];
const Z: [f64; 3] = [0.0, 0.0, 1.0];

pub fn base_rv() -> Base {
    Base {
        kit: "RealVector",
        spec: Spec::Rv { dim: 2, bounds: Some(vec![(0.0, 4.0), (0.0, 4.0)]), frac: None },
        alphabet: vec![
            rv2(0.5, 2.0),  // 0 S
            rv2(0.5, 2.0),  // 1 S'
            rv2(1.5, 2.0),  // 2 A  (|SA| = 1 exactly)
            rv2(1.5, 2.0),  // 3 A'
            rv2(2.5, 2.0),  // 4 B
            rv2(3.5, 2.0),  // 5 G
            rv2(3.5, 2.25), // 6 G2 (inside the goal ball)
            rv2(1.5, 3.2),  // 7 D
            rv2(1.5, 0.8),  // 8 E
            rv2(2.5, 3.4),  // 9 F
            rv2(2.0, 2.0),  // 10 W
            rv2(3.9, 0.1),  // 11 X
        ],
        start: 0,
        goal_ball: (rv2(3.5, 2.0), 0.3),
        goal_samples: vec![rv2(3.5, 2.0), rv2(3.5, 2.25)],
        obstacles: vec![
            ObstSpec::Ball(rv2(2.0, 2.0), 0.3),
            ObstSpec::Ball(rv2(3.0, 2.0), 0.3),
            ObstSpec::Ball(rv2(1.5, 2.6), 0.3),
            ObstSpec::Ball(rv2(1.0, 2.0), 0.3),
        ],
        marginal: ObstSpec::Ball(rv2(0.21, 2.0), 0.3),
        goal_overlap: ObstSpec::Ball(rv2(3.5, 2.4), 0.2),
        seal_goal: ObstSpec::Ring(rv2(3.5, 2.0), 0.4, 1.05),
        seal_start: ObstSpec::Ring(rv2(0.5, 2.0), 0.35, 0.95),
        goal_dead: ObstSpec::Ball(rv2(3.5, 2.0), 0.35),
        unit: 1.0,
        sub4: vec![2, 4, 5, 7],
        sub3: vec![2, 4, 5],
    }
}

pub fn base_so2() -> Base {
    Base {
        kit: "SO2",
        spec: Spec::So2 { bounds: None, frac: None },
        alphabet: vec![
            V::So2(-PI / 2.0), // 0 S
            V::So2(-PI / 2.0), // 1 S'
            V::So2(-1.0),      // 2 A  (d = pi/2 - 1)
            V::So2(0.0),       // 3
            V::So2(1.0),       // 4
            V::So2(PI / 2.0),  // 5 G (antipodal to S)
            V::So2(PI / 2.0 + 0.05), // 6 G2
            V::So2(-3.0),      // 7
            V::So2(3.0),       // 8
            V::So2(PI),        // 9
            V::So2(-PI),       // 10
            V::So2(2.2),       // 11
        ],
        start: 0,
        goal_ball: (V::So2(PI / 2.0), 0.1),
        goal_samples: vec![V::So2(PI / 2.0), V::So2(PI / 2.0 + 0.05)],
        obstacles: vec![
            ObstSpec::Ball(V::So2(0.5), 0.2),
            ObstSpec::Ball(V::So2(-2.3), 0.2),
            ObstSpec::Ball(V::So2(PI), 0.1),
            ObstSpec::Ball(V::So2(-0.5), 0.17),
        ],
        marginal: ObstSpec::Ball(V::So2(-PI / 2.0 - 0.19), 0.2),
        goal_overlap: ObstSpec::Ball(V::So2(PI / 2.0 + 0.1), 0.06),
        seal_goal: ObstSpec::Ring(V::So2(PI / 2.0), 0.15, 0.5),
        seal_start: ObstSpec::Ring(V::So2(-PI / 2.0), 0.15, 0.5),
        goal_dead: ObstSpec::Ball(V::So2(PI / 2.0), 0.12),
        unit: PI / 2.0 - 1.0,
        sub4: vec![2, 3, 5, 8],
        sub3: vec![3, 5, 8],
    }
}

pub fn base_so3() -> Base {
    Base {
        kit: "SO3",
        spec: Spec::So3 { bounds: None, frac: None },
        alphabet: vec![
            V::So3([0.0, 0.0, 0.0, 1.0]),  // 0 S = I
            V::So3([0.0, 0.0, 0.0, 1.0]),  // 1 dup
            q(Z, 40.0),                    // 2 A
            V::So3([0.0, 0.0, 0.0, -1.0]), // 3 -I (same rotation as S)
            q(Z, 2.0),                     // 4 LERP branch (dot > 0.9995)
            q(X, 90.0),                    // 5
            q(Y, 90.0),                    // 6
            q(Z, 90.0),                    // 7
            q(Z, 180.0),                   // 8 dot 0 with I
            q(Z, 120.0),                   // 9 G
            q(Z, 125.0),                   // 10 G2
            V::So3({
                let a = quat_axis_angle(X, 90.0);
                let b = quat_axis_angle(Z, 90.0);
                crate::refspace::quat_mul(&a, &b)
            }), // 11
        ],
        start: 0,
        goal_ball: (q(Z, 120.0), 0.2),
        goal_samples: vec![q(Z, 120.0), q(Z, 125.0)],
        obstacles: vec![
            ObstSpec::Ball(q(Z, 65.0), 0.15),
            ObstSpec::Ball(q(Z, 105.0), 0.1),
            ObstSpec::Ball(q(X, 45.0), 0.2),
            ObstSpec::Ball(q(Z, 20.0), 0.1),
        ],
        marginal: ObstSpec::Ball(q(Z, -10.0), 10f64.to_radians() + 0.01),
        goal_overlap: ObstSpec::Ball(q(Z, 128.0), 0.07),
        seal_goal: ObstSpec::Ring(q(Z, 120.0), 0.3, 0.6),
        seal_start: ObstSpec::Ring(V::So3([0.0, 0.0, 0.0, 1.0]), 0.2, 0.5),
        goal_dead: ObstSpec::Ball(q(Z, 120.0), 0.25),
        unit: 40f64.to_radians(),
        sub4: vec![2, 7, 9, 5],
        sub3: vec![2, 7, 9],
    }
}

fn cmp_r2so2(x: f64, y: f64, a: f64) -> V {
    V::Cmp(vec![rv2(x, y), V::So2(a)])
}

fn cmp_like_alphabet() -> Vec<V> {
    vec![
        cmp_r2so2(0.5, 2.0, 0.0),  // 0 S
        cmp_r2so2(0.5, 2.0, 0.0),  // 1 dup
        cmp_r2so2(1.5, 2.0, 0.0),  // 2 A (|SA| = 1)
        cmp_r2so2(1.5, 2.0, 3.0),  // 3
        cmp_r2so2(1.5, 2.0, -3.0), // 4 (seam neighbour of 3)
        cmp_r2so2(2.5, 2.0, 0.0),  // 5 B
        cmp_r2so2(3.5, 2.0, 0.0),  // 6 G
        cmp_r2so2(3.5, 2.0, 0.2),  // 7 G2
        cmp_r2so2(3.5, 2.0, 3.0),  // 8
        cmp_r2so2(0.5, 2.0, -3.0), // 9
        cmp_r2so2(2.5, 3.4, 1.0),  // 10
    ]
}

/// Scenario family "a component the metric ignores": [R^2, SO(2)] with weights (1, 0) and an obstacle that
/// lives on the ignored component (the angular arc [1, 2]): states at distance exactly 0 from each other
/// can differ in validity. A motion of length 0 still has an end state that must be validated.
pub fn zero_weight_scenarios(prop: &str, planners: &[Pk]) -> Vec<Scenario> {
    let b = base_cmp();
    let a = |x: f64, y: f64, t: f64| cmp_r2so2(x, y, t);
    let alphabet = vec![a(0.5, 2.0, 0.0), a(0.5, 2.0, 1.5), a(1.5, 2.0, 0.0), a(1.5, 2.0, 1.5), a(2.5, 2.0, 0.0), a(2.5, 2.0, 1.5), a(3.5, 2.0, 0.0), a(3.5, 2.0, 1.5), a(1.5, 3.2, 0.5), a(0.5, 2.0, 0.0)];
    let mut out = Vec::new();
    for &pk in planners {
        for sm in [1.0, 1.6] {
            let mut sc = b.scenario(WorldSpec { name: "arc-on-ignored-component".into(), obst: vec![ObstSpec::Arc(1.0, 2.0)] }, b.params(pk, if pk == Pk::Prm { 1.6 } else { sm }, 2.5, 0.0), &format!("{prop}/Compound/zero-weight/{}x{sm}", pk.name()));
            sc.spec = Spec::Cmp {
                parts: vec![Spec::Rv { dim: 2, bounds: Some(vec![(0.0, 4.0), (0.0, 4.0)]), frac: None }, Spec::So2 { bounds: None, frac: None }],
                weights: vec![1.0, 0.0],
            };
            sc.alphabet = alphabet.clone();
            sc.start = alphabet[0].clone();
            sc.goal_balls = vec![(alphabet[6].clone(), 0.3)];
            sc.goal_samples = vec![alphabet[6].clone(), alphabet[7].clone()];
            out.push(sc);
        }
    }
    out
}

/// Scenario family "a component that weighs MORE than the others": [R^2, SO(2)] with weights (1, 3) and
/// (0.25, 3), SE(2) with weight 3 - a planner that measures with anything but the space's own metric
/// (unsquared weights, squared distances compared with plain ones) steps too far or links too much.
pub fn heavy_weight_scenarios(prop: &str, planners: &[Pk]) -> Vec<Scenario> {
    let a = |x: f64, y: f64, t: f64| cmp_r2so2(x, y, t);
    let alphabet = vec![a(0.5, 2.0, 0.0), a(0.5, 2.0, 0.4), a(1.5, 2.0, 0.0), a(1.5, 2.0, 1.5), a(2.5, 2.0, -0.3), a(2.5, 2.4, 1.5), a(3.5, 2.0, 0.0), a(3.5, 2.0, 0.2), a(1.5, 3.2, 0.5), a(0.5, 2.0, 0.0), a(1.0, 2.0, 0.1)];
    let mut out = Vec::new();
    let r2 = Spec::Rv { dim: 2, bounds: Some(vec![(0.0, 4.0), (0.0, 4.0)]), frac: None };
    let variants: Vec<(&'static str, Spec, &str)> = vec![
        ("Compound", Spec::Cmp { parts: vec![r2.clone(), Spec::So2 { bounds: None, frac: None }], weights: vec![1.0, 3.0] }, "w1-3"),
        ("Compound", Spec::Cmp { parts: vec![r2.clone(), Spec::So2 { bounds: None, frac: None }], weights: vec![0.25, 3.0] }, "w.25-3"),
        ("SE2", Spec::Se2 { weight: 3.0, bounds: Some(vec![(0.0, 4.0), (0.0, 4.0), (-PI, PI)]) }, "w3"),
    ];
    for (kit, spec, wn) in variants {
        let b = base_of(kit);
        for &pk in planners {
            for sm in [0.5, 1.0] {
                for (wname, obst) in [("free", vec![]), ("ball", vec![ObstSpec::Ball(a(2.0, 2.0, 0.0), 0.32)])] {
                    let mut sc = b.scenario(WorldSpec { name: wname.into(), obst }, b.params(pk, if pk == Pk::Prm { 1.6 } else { sm }, 2.5, 0.0), &format!("{prop}/{kit}/heavy-weight-{wn}/{wname}/{}x{sm}", pk.name()));
                    sc.spec = spec.clone();
                    sc.alphabet = alphabet.clone();
                    sc.start = alphabet[0].clone();
                    sc.goal_balls = vec![(alphabet[6].clone(), 0.3)];
                    sc.goal_samples = vec![alphabet[6].clone(), alphabet[7].clone()];
                    out.push(sc);
                }
            }
        }
    }
    out
}

pub fn base_cmp() -> Base {
    Base {
        kit: "Compound",
        spec: Spec::Cmp {
            parts: vec![
                Spec::Rv { dim: 2, bounds: Some(vec![(0.0, 4.0), (0.0, 4.0)]), frac: None },
                Spec::So2 { bounds: None, frac: None },
            ],
            weights: vec![1.0, 0.5],
        },
        alphabet: cmp_like_alphabet(),
        start: 0,
        goal_ball: (cmp_r2so2(3.5, 2.0, 0.0), 0.3),
        goal_samples: vec![cmp_r2so2(3.5, 2.0, 0.0), cmp_r2so2(3.5, 2.0, 0.2)],
        obstacles: vec![
            ObstSpec::Ball(cmp_r2so2(2.0, 2.0, 0.0), 0.32),
            ObstSpec::Ball(cmp_r2so2(3.0, 2.0, 0.0), 0.32),
            ObstSpec::Ball(cmp_r2so2(1.5, 2.0, PI), 0.32),
            ObstSpec::Ball(cmp_r2so2(1.0, 2.0, 0.0), 0.32),
        ],
        marginal: ObstSpec::Ball(cmp_r2so2(0.19, 2.0, 0.0), 0.32),
        goal_overlap: ObstSpec::Ball(cmp_r2so2(3.5, 2.0, 0.5), 0.2),
        seal_goal: ObstSpec::Ring(cmp_r2so2(3.5, 2.0, 0.0), 0.4, 1.05),
        seal_start: ObstSpec::Ring(cmp_r2so2(0.5, 2.0, 0.0), 0.35, 0.95),
        goal_dead: ObstSpec::Ball(cmp_r2so2(3.5, 2.0, 0.0), 0.35),
        unit: 1.0,
        sub4: vec![2, 5, 6, 3],
        sub3: vec![2, 5, 6],
    }
}

pub fn base_se2() -> Base {
    let mut b = base_cmp();
    b.kit = "SE2";
    b.spec = Spec::Se2 { weight: 0.5, bounds: Some(vec![(0.0, 4.0), (0.0, 4.0), (-PI, PI)]) };
    b
}

fn se3v(x: f64, y: f64, z: f64, r: [f64; 4]) -> V {
    V::Cmp(vec![V::Rv(vec![x, y, z]), V::So3(r)])
}

pub fn base_se3() -> Base {
    let i = [0.0, 0.0, 0.0, 1.0];
    let z90 = quat_axis_angle(Z, 90.0);
    let x90 = quat_axis_angle(X, 90.0);
    Base {
        kit: "SE3",
        spec: Spec::Se3 { weight: 0.5, bounds: Some(vec![(0.0, 4.0), (0.0, 4.0), (0.0, 4.0)]) },
        alphabet: vec![
            se3v(0.5, 2.0, 2.0, i),   // 0 S
            se3v(0.5, 2.0, 2.0, i),   // 1 dup
            se3v(1.5, 2.0, 2.0, i),   // 2 A
            se3v(1.5, 2.0, 2.0, z90), // 3
            se3v(2.5, 2.0, 2.0, i),   // 4 B
            se3v(3.5, 2.0, 2.0, i),   // 5 G
            se3v(3.5, 2.0, 2.0, quat_axis_angle(Z, 10.0)), // 6 G2
            se3v(2.5, 2.0, 2.0, x90), // 7
            se3v(0.5, 2.0, 2.0, [0.0, 0.0, 0.0, -1.0]), // 8 same configuration as S
            se3v(2.5, 3.4, 1.0, z90), // 9
        ],
        start: 0,
        goal_ball: (se3v(3.5, 2.0, 2.0, i), 0.3),
        goal_samples: vec![se3v(3.5, 2.0, 2.0, i), se3v(3.5, 2.0, 2.0, quat_axis_angle(Z, 10.0))],
        obstacles: vec![
            ObstSpec::Ball(se3v(2.0, 2.0, 2.0, i), 0.4),
            ObstSpec::Ball(se3v(3.0, 2.0, 2.0, i), 0.4),
            ObstSpec::Ball(se3v(1.5, 2.0, 2.0, quat_axis_angle(Z, 45.0)), 0.3),
            ObstSpec::Ball(se3v(1.0, 2.0, 2.0, i), 0.4),
        ],
        marginal: ObstSpec::Ball(se3v(0.11, 2.0, 2.0, i), 0.4),
        goal_overlap: ObstSpec::Ball(se3v(3.5, 2.0, 2.0, quat_axis_angle(Z, 25.0)), 0.1),
        seal_goal: ObstSpec::Ring(se3v(3.5, 2.0, 2.0, i), 0.45, 1.2),
        seal_start: ObstSpec::Ring(se3v(0.5, 2.0, 2.0, i), 0.45, 1.2),
        goal_dead: ObstSpec::Ball(se3v(3.5, 2.0, 2.0, i), 0.35),
        unit: 1.0,
        sub4: vec![2, 4, 5, 3],
        sub3: vec![2, 4, 5],
    }
}

pub fn base_of(kit: &str) -> Base {
    match kit {
        "RealVector" => base_rv(),
        "SO2" => base_so2(),
        "SO3" => base_so3(),
        "Compound" => base_cmp(),
        "SE2" => base_se2(),
        "SE3" => base_se3(),
        _ => panic!("unknown kit {kit}"),
    }
}
pub const KITS: [&str; 6] = ["RealVector", "SO2", "SO3", "Compound", "SE2", "SE3"];

impl Base {
    /// All subsets of the candidate obstacles (2^k worlds), named by bitmask.
    pub fn subset_worlds(&self) -> Vec<WorldSpec> {
        let k = self.obstacles.len();
        (0..(1u32 << k))
            .map(|m| WorldSpec {
                name: format!("subset{m:04b}"),
                obst: (0..k).filter(|i| m >> i & 1 == 1).map(|i| self.obstacles[i].clone()).collect(),
            })
            .collect()
    }
    pub fn world_free(&self) -> WorldSpec {
        WorldSpec { name: "free".into(), obst: vec![] }
    }
    pub fn world_named(&self, name: &str, obst: Vec<ObstSpec>) -> WorldSpec {
        WorldSpec { name: name.into(), obst }
    }
    pub fn params(&self, pk: Pk, step_mul: f64, radius_mul: f64, bias: f64) -> Params {
        let step = self.unit * step_mul;
        Params { pk, step, bias, radius: step * radius_mul, prm_timeout: 0.0, seed: Some(1) }
    }
    pub fn scenario(&self, world: WorldSpec, params: Params, tag: &str) -> Scenario {
        Scenario {
            kit: self.kit,
            spec: self.spec.clone(),
            alphabet: self.alphabet.clone(),
            world,
            start: self.alphabet[self.start].clone(),
            goal_balls: vec![self.goal_ball.clone()],
            goal_samples: self.goal_samples.clone(),
            goal_root: 0,
            extra_starts: vec![],
            goal_fail_at: None,
            goal_fail_from: None,
            prelife: vec![],
            step_raise: 1.0,
            params,
            tag: tag.into(),
        }
    }
}

//! C11 (sample / enforce / satisfies agree) and C12 (constructors accept only well-formed bounds,
//! state constructors canonicalise): exhaustive lattices of constructor arguments, states and RNG
//! words against the real API, every call guarded against unwinding.

use crate::explore::{guarded, Caught};
use crate::kit::{Kit, Rv, Se2, Se3, So2, So3, Spec, V};
use crate::lattice::*;
use crate::refspace::{self, angle_tol, quat_norm, so3_dist, wrap_ref};
use crate::report::{finish, h128, CheckMeta, Report};
use crate::rngseam::{word_for_unit, WordRng};
use oxmpl::base::error::{StateError, StateSamplingError, StateSpaceError};
use oxmpl::base::space::{CompoundStateSpace, RealVectorStateSpace, SE2StateSpace, SE3StateSpace, SO2StateSpace, SO3StateSpace, StateSpace};
use oxmpl::base::state::{SE2State, SO2State, SO3State};
use serde_json::{json, Value};
use std::f64::consts::PI;
use std::time::Instant;

fn viol(rep: &mut Report, prop: &str, key: &str, what: String, detail: Value) {
    rep.violate(format!("{prop}|{key}"), what, || json!({"kind": "bounds", "prop": prop, "detail": detail}));
}

fn pmsg(c: Caught) -> String {
    match c {
        Caught::Panic(m) | Caught::Harness(m) => m,
        Caught::WorkCap(_) => "work cap".into(),
        Caught::ScriptExhausted => "script exhausted".into(),
    }
}
fn ploc(m: &str) -> String {
    m.rsplit(" @ ").next().unwrap_or("").rsplit('/').next().unwrap_or("").to_string()
}

// ----------------------------------------------------------------------------------------------
// word lattices for the scripted RNG

/// unit-interval lattice including the extremes 0 and 1 - 2^-52
fn unit_lattice(k: usize) -> Vec<u64> {
    let mut v = vec![0u64, u64::MAX, word_for_unit(0.5)];
    for i in 0..k {
        v.push(word_for_unit((i as f64 + 0.5) / k as f64));
    }
    v
}

fn for_tuples(words: &[u64], d: usize, mut f: impl FnMut(&[u64])) {
    let n = words.len();
    let mut idx = vec![0usize; d];
    let mut t = vec![0u64; d];
    loop {
        for i in 0..d {
            t[i] = words[idx[i]];
        }
        f(&t);
        let mut i = d;
        loop {
            if i == 0 {
                return;
            }
            i -= 1;
            idx[i] += 1;
            if idx[i] < n {
                break;
            }
            idx[i] = 0;
        }
    }
}

// ----------------------------------------------------------------------------------------------
// C11

fn state_lattice_for(spec: &Spec) -> Vec<V> {
    match spec {
        Spec::Rv { dim, .. } => {
            let c = [0.0, 1.0, -1.0, 0.5, 3.0, -7.0, 1e300, -1e300, 1e-8, 4.0, 5.0, f64::INFINITY, f64::NEG_INFINITY, f64::MAX, -0.0, 5e-324];
            let mut out = Vec::new();
            for a in c {
                for b in c {
                    out.push(V::Rv((0..*dim).map(|i| if i % 2 == 0 { a } else { b }).collect()));
                }
            }
            // coordinates placed RELATIVE to each finite bound: on it, one and a few ulps either side, a
            // relative 1e-12 / 1e-6 either side, far beyond; the other coordinates in the middle of their sides
            if let Spec::Rv { bounds: Some(bs), .. } = spec {
                let mid: Vec<f64> = bs.iter().map(|(l, u)| if l.is_finite() && u.is_finite() { l + 0.5 * (u - l) } else if l.is_finite() { *l + 1.0 } else if u.is_finite() { *u - 1.0 } else { 0.0 }).collect();
                for (i, (l, u)) in bs.iter().enumerate() {
                    for bnd in [*l, *u] {
                        if !bnd.is_finite() {
                            continue;
                        }
                        let m = bnd.abs().max(f64::MIN_POSITIVE);
                        for x in [bnd, crate::lattice::next_up(bnd), crate::lattice::next_down(bnd), bnd + 4.0 * f64::EPSILON * m, bnd - 4.0 * f64::EPSILON * m, bnd + 1e-12 * m, bnd - 1e-12 * m, bnd + 1e-6 * m, bnd - 1e-6 * m, bnd + 1e3 * m, bnd - 1e3 * m] {
                            let mut c = mid.clone();
                            c[i] = x;
                            out.push(V::Rv(c));
                        }
                    }
                }
            }
            out
        }
        Spec::So2 { bounds, .. } => {
            let mut v = so2_lattice(true);
            // states placed RELATIVE to the stored interval: on, a hair beyond and well beyond either end, the
            // point opposite the middle (where the nearer end changes), each also one turn off
            if bounds.is_some() {
                let (l, u) = refspace::so2_bounds(bounds);
                let mid = 0.5 * (l + u);
                for base in [l, u, mid + PI, mid - PI] {
                    for d in [0.0, 1e-15, -1e-15, 1e-12, -1e-12, 1e-9, -1e-9, 1e-6, -1e-6, 0.01, -0.01, 0.3, -0.3] {
                        v.push(V::So2(base + d));
                        v.push(V::So2(base + d + 2.0 * PI));
                    }
                }
            }
            v
        }
        Spec::So3 { bounds, .. } => {
            let mut v = so3_lattice(true);
            v.push(V::So3([0.0, 0.0, 0.0, 0.0])); // zero quaternion
            v.push(V::So3([0.0, 0.0, 0.0, 2.0])); // non-unit
            v.push(V::So3([3.0, 0.0, 4.0, 0.0]));
            v.push(V::So3([1e-10, 0.0, 0.0, 0.0]));
            // almost-unit quaternions (a unit one read back through single precision, drifted by an integration step):
            // the enforced state is a unit quaternion all the same
            for eps in [1e-3, 1e-5, -1e-5, 3e-6, 1e-8, -1e-8, 1e-10, 1e-13] {
                let m = 1.0 + eps;
                v.push(V::So3([0.6 * m, 0.0, 0.8 * m, 0.0]));
                v.push(V::So3([0.5 * m, -0.5 * m, 0.5 * m, 0.5 * m]));
                v.push(V::So3([0.0, 0.0, 0.0, m]));
            }
            // one direction at every other decimal order of magnitude a double has (squares that underflow, are
            // subnormal, overflow): enforce_bounds normalises first, whatever the length
            for e in (-322..=306).step_by(2) {
                let m = 10f64.powi(e);
                v.push(V::So3([0.6 * m, 0.0, 0.8 * m, 0.0]));
                v.push(V::So3([0.5 * m, -0.5 * m, 0.5 * m, 0.5 * m]));
            }
            // states placed RELATIVE to the cone: centre x rotation about 4 axes by k x radius for a ladder of k
            // from just inside to far outside (projection ratios t = 1/k over the whole of (0, 1]), and by a
            // ladder of absolute small angles (the projection interpolates, and interpolation switches formula
            // for rotations closer than 0.063 rad)
            if let Some((c, r)) = bounds {
                let axes = [[1.0, 0.0, 0.0], [0.0, 1.0, 0.0], [0.0, 0.0, 1.0], [0.6, -0.48, 0.64]];
                let mut angles: Vec<f64> = [0.5, 1.0 - 1e-9, 1.0, 1.0 + 1e-9, 1.0 + 1e-6, 1.001, 1.05, 1.2, 1.5, 1.9, 2.0, 2.1, 3.0, 5.0, 10.0, 100.0, 1e4].iter().map(|k| k * r).collect();
                angles.extend([1e-7, 1e-5, 1e-3, 0.01, 0.02, 0.03, 0.045, 0.06, 0.0632, 0.0633, 0.07, 0.1, 0.3, 1.0, 2.0, 3.0, PI]);
                for ax in axes {
                    for a in &angles {
                        if *a > 0.0 && *a <= PI {
                            let rot = crate::catalog::quat_axis_angle(ax, a.to_degrees());
                            let q = refspace::quat_mul(c, &rot);
                            v.push(V::So3(q));
                            v.push(V::So3([-q[0], -q[1], -q[2], -q[3]]));
                        }
                    }
                }
            }
            v
        }
        _ => {
            let (parts, _) = refspace::as_parts(spec).unwrap();
            // product of small per-component lattices (far outside, boundary, non-canonical)
            let subs: Vec<Vec<V>> = parts
                .iter()
                .map(|p| match p {
                    Spec::Rv { dim, .. } => [0.5, -7.0, 1e300, 4.0, f64::NEG_INFINITY].iter().map(|a| V::Rv(vec![*a; *dim])).collect(),
                    Spec::So2 { .. } => [0.0, 1.5 * PI, -3.0, 7.0, PI].iter().map(|a| V::So2(*a)).collect(),
                    Spec::So3 { .. } => vec![V::So3([0.0, 0.0, 0.0, 1.0]), V::So3([0.0, 0.0, 0.0, 0.0]), V::So3(crate::catalog::quat_axis_angle([1.0, 0.0, 0.0], 170.0)), V::So3([0.0, 0.0, 3.0, 0.0])],
                    _ => unreachable!(),
                })
                .collect();
            let mut out: Vec<Vec<V>> = vec![vec![]];
            for s in &subs {
                let mut n = Vec::new();
                for pre in &out {
                    for x in s {
                        let mut p = pre.clone();
                        p.push(x.clone());
                        n.push(p);
                    }
                }
                out = n;
            }
            out.into_iter().map(V::Cmp).collect()
        }
    }
}

fn canonical_after_enforce(spec: &Spec, v: &V) -> Result<(), String> {
    match (spec, v) {
        (Spec::Rv { bounds, .. }, V::Rv(x)) => {
            if let Some(b) = bounds {
                for (c, (l, u)) in x.iter().zip(b) {
                    if !(*c >= *l && *c <= *u) {
                        return Err(format!("coordinate {c} outside [{l},{u}]"));
                    }
                }
            }
            Ok(())
        }
        (Spec::So2 { bounds, .. }, V::So2(a)) => {
            let (l, u) = refspace::so2_bounds(bounds);
            // "angle numerically inside the interval"
            if *a >= l - 4.0 * f64::EPSILON * PI && *a <= u + 4.0 * f64::EPSILON * PI {
                Ok(())
            } else {
                Err(format!("stored angle {a} is not numerically inside [{l},{u}]"))
            }
        }
        (Spec::So3 { .. }, V::So3(q)) => {
            if (quat_norm(q) - 1.0).abs() <= 1e-12 {
                Ok(())
            } else {
                Err(format!("quaternion norm {}", quat_norm(q)))
            }
        }
        (_, V::Cmp(c)) => {
            let (parts, _) = refspace::as_parts(spec).unwrap();
            parts.iter().zip(c).try_for_each(|(p, x)| canonical_after_enforce(p, x))
        }
        _ => Err("spec/value mismatch".into()),
    }
}

fn nearly_same(a: &V, b: &V) -> bool {
    let close = |x: f64, y: f64| x == y || (x - y).abs() <= 4.0 * f64::EPSILON * x.abs().max(y.abs()).max(1.0);
    match (a, b) {
        (V::Rv(x), V::Rv(y)) => x.len() == y.len() && x.iter().zip(y).all(|(p, q)| close(*p, *q)),
        // -pi and pi are the same configuration; which representative is stored at the seam is
        // decided by the "numerically inside the interval" clause, not by this one
        (V::So2(x), V::So2(y)) => close(*x, *y) || (x.abs() == PI && y.abs() == PI),
        (V::So3(x), V::So3(y)) => x.iter().zip(y).all(|(p, q)| close(*p, *q)),
        (V::Cmp(x), V::Cmp(y)) => x.len() == y.len() && x.iter().zip(y).all(|(p, q)| nearly_same(p, q)),
        _ => false,
    }
}

fn is_canonical_input(v: &V) -> bool {
    match v {
        V::Rv(_) => true,
        V::So2(a) => *a >= -PI && *a <= PI,
        V::So3(q) => (quat_norm(q) - 1.0).abs() <= 1e-15,
        V::Cmp(c) => c.iter().all(is_canonical_input),
    }
}

fn class_of(spec: &Spec) -> String {
    crate::props_paths::bounds_class(spec)
}

fn c11_enforce<K: Kit>(spec: &Spec, rep: &mut Report) {
    let kit = K::NAME;
    let sp = K::build(spec);
    let lat = state_lattice_for(spec);
    let cls = class_of(spec);
    for v in &lat {
        let s0 = K::from_v(v);
        rep.count("evaluations", 1);
        let r = guarded(|| {
            let mut e = s0.clone();
            sp.enforce_bounds(&mut e);
            let sat = sp.satisfies_bounds(&e);
            let mut e2 = e.clone();
            sp.enforce_bounds(&mut e2);
            let was_sat = sp.satisfies_bounds(&s0);
            // well-conditioned reference distance (the space's own acos-based one has 3e-8 noise)
            let d12 = refspace::dist(spec, &K::to_v(&e), &K::to_v(&e2));
            (e, sat, e2, was_sat, d12)
        });
        let det = |extra: Value| json!({"space": spec.json(), "state": v.json(), "more": extra});
        match r {
            Err(c) => {
                let m = pmsg(c);
                viol(rep, "C11", &format!("{kit}|enforce/satisfies-panic:{}", ploc(&m)), format!("bounds operation unwound: {m}"), det(json!({})));
            }
            Ok((e, sat, e2, was_sat, d12)) => {
                let ev = K::to_v(&e);
                rep.distinct.insert(h128(&ev.bits()));
                if !sat {
                    viol(rep, "C11", &format!("{kit}|satisfies-after-enforce|{cls}"), "satisfies_bounds rejects the state enforce_bounds produced".into(), det(json!({"enforced": ev.json()})));
                } else {
                    rep.count("enforce_then_satisfies_ok", 1);
                }
                if !refspace::in_bounds(spec, &ev, 1e-9, 2e-7) {
                    viol(rep, "C11", &format!("{kit}|enforced-state-outside-bounds-model|{cls}"), "the enforced state violates the independent bounds model".into(), det(json!({"enforced": ev.json()})));
                }
                // (an infinite coordinate on an unbounded side legitimately stays infinite: idempotence is then bit equality)
                let same_bits = ev.bits() == K::to_v(&e2).bits();
                if !(d12 <= 1e-9 || same_bits) || (!ev.all_finite() && v.all_finite()) {
                    viol(rep, "C11", &format!("{kit}|enforce-not-idempotent|{cls}"), format!("enforcing twice moves the state by {d12}"), det(json!({"enforced": ev.json(), "twice": K::to_v(&e2).json()})));
                }
                // the bounds operations are functions of the state: a space object that has projected other states
                // before answers exactly as a fresh one
                {
                    let fresh = K::build(spec);
                    let mut ef = s0.clone();
                    let same = guarded(|| {
                        fresh.enforce_bounds(&mut ef);
                        (K::bits(&ef) == K::bits(&e) || (!K::to_v(&ef).all_finite() && !ev.all_finite())) && fresh.satisfies_bounds(&s0) == was_sat
                    });
                    rep.count("fresh_space_variants", 1);
                    if !matches!(same, Ok(true)) {
                        viol(rep, "C11", &format!("{kit}|result-depends-on-call-history|{cls}"), "a space object that served other states before enforces / checks this state differently from a fresh one".into(), det(json!({"enforced": ev.json()})));
                    }
                }
                if let Err(why) = canonical_after_enforce(spec, &ev) {
                    viol(rep, "C11", &format!("{kit}|enforce-not-canonical|{cls}"), format!("enforced state is not canonical: {why}"), det(json!({"enforced": ev.json()})));
                }
                if was_sat && is_canonical_input(v) {
                    rep.count("already_satisfying_states", 1);
                    // "unchanged" up to the rounding the space's own tolerance admits: every number
                    // within 4 ulp-ish of the input (re-normalising a unit quaternion moves last bits;
                    // a box accepts x within EPSILON of a bound and then clamps it onto the bound)
                    if !nearly_same(&ev, v) {
                        viol(rep, "C11", &format!("{kit}|satisfying-state-changed|{cls}"), "enforce_bounds changed a canonical state that already satisfied the bounds".into(), det(json!({"enforced": ev.json()})));
                    }
                }
            }
        }
    }
}

fn words_per_attempt(spec: &Spec) -> usize {
    match spec {
        Spec::Rv { dim, .. } => *dim,
        Spec::So2 { .. } => 1,
        Spec::So3 { .. } => 4,
        _ => refspace::as_parts(spec).unwrap().0.iter().map(words_per_attempt).sum(),
    }
}

/// words that make the SO(3) rejection sampler accept immediately: 0.5 * centre
fn accept_tail(spec: &Spec) -> Vec<u64> {
    match spec {
        Spec::So3 { bounds, .. } => {
            let c = bounds.as_ref().map(|b| b.0).unwrap_or([0.0, 0.0, 0.0, 1.0]);
            // just inside the unit ball and (after normalisation) exactly the centre direction
            c.iter().map(|x| word_for_unit(((1.0 - 1e-8) * x + 1.0) / 2.0)).collect()
        }
        Spec::Rv { dim, .. } => vec![word_for_unit(0.5); *dim],
        Spec::So2 { .. } => vec![word_for_unit(0.5)],
        _ => refspace::as_parts(spec).unwrap().0.iter().flat_map(accept_tail).collect(),
    }
}

fn c11_sample<K: Kit>(spec: &Spec, k: usize, rep: &mut Report) {
    let kit = K::NAME;
    let cls = class_of(spec);
    let built = guarded(|| K::build(spec));
    let Ok(sp) = built else { return };
    // A narrow cone around a non-identity centre is hit by rejection sampling with probability
    // ~1e-10 per attempt; a scripted word stream cannot promise termination there without
    // assuming the sampler's word-to-coordinate mapping, so those spaces are exercised by the
    // enforce/satisfies half only.
    if let Spec::So3 { bounds: Some((c, r)), .. } = spec {
        if *c != [0.0, 0.0, 0.0, 1.0] && *r < 0.5 && *r >= 1e-9 {
            rep.count("sampling_skipped_narrow_offcentre_cones", 1);
            return;
        }
    }
    let d = words_per_attempt(spec);
    let words = unit_lattice(k);
    let tail = accept_tail(spec);
    for_tuples(&words, d, |t| {
        let mut script = t.to_vec();
        // rejection samplers re-draw: follow the lattice tuple with words known to be accepted by
        // the pinned sampler and then a long fixed pseudo-random tail, so that any sampler with a
        // positive acceptance probability terminates
        script.extend_from_slice(&tail);
        script.extend((0..16384u64).map(crate::rngseam::mix));
        rep.count("evaluations", 1);
        let r = guarded(|| {
            let mut rng = WordRng::new(script.clone());
            rng.cap = 16000;
            sp.sample_uniform(&mut rng).map(|s| {
                let ok = sp.satisfies_bounds(&s);
                (s, ok)
            })
        });
        let det = |extra: Value| json!({"space": spec.json(), "rng_words": t, "more": extra});
        match r {
            Err(Caught::Harness(m)) => rep.engine_error(format!("sampler of {spec:?} did not terminate within the scripted words ({m})")),
            Err(c) => {
                let m = pmsg(c);
                viol(rep, "C11", &format!("{kit}|sample-panic:{}|{cls}", ploc(&m)), format!("sample_uniform unwound: {m}"), det(json!({})));
            }
            Ok(Err(StateSamplingError::UnboundedDimension { .. })) => {
                rep.count("sample_unbounded_errors", 1);
                if !has_unbounded(spec) {
                    viol(rep, "C11", &format!("{kit}|spurious-unbounded-error|{cls}"), "UnboundedDimension although every dimension is bounded".into(), det(json!({})));
                }
            }
            Ok(Err(e)) => viol(rep, "C11", &format!("{kit}|sample-error:{e:?}|{cls}"), format!("sample_uniform returned {e:?}"), det(json!({}))),
            Ok(Ok((s, ok))) => {
                rep.count("samples_drawn", 1);
                let sv = K::to_v(&s);
                rep.distinct.insert(h128(&sv.bits()));
                if has_unbounded(spec) {
                    // the statement allows either a state that satisfies the bounds or the documented
                    // error; a sample from a dimension without a (representable) width is therefore not
                    // a violation of C11 as long as it satisfies the bounds - it is counted, and what
                    // law such samples follow is C14's question
                    rep.count("samples_from_dimensions_without_width", 1);
                }
                if !ok {
                    viol(rep, "C11", &format!("{kit}|sample-violates-satisfies_bounds|{cls}"), "the sampled state is rejected by satisfies_bounds".into(), det(json!({"sample": sv.json()})));
                }
                if !refspace::in_bounds(spec, &sv, 1e-9, 2e-7) {
                    viol(rep, "C11", &format!("{kit}|sample-outside-bounds-model|{cls}"), "the sampled state violates the independent bounds model".into(), det(json!({"sample": sv.json()})));
                }
            }
        }
    });
}

fn has_unbounded(spec: &Spec) -> bool {
    match spec {
        Spec::Rv { bounds, .. } => match bounds {
            None => true,
            Some(b) => b.iter().any(|(l, u)| !l.is_finite() || !u.is_finite() || !(u - l).is_finite()),
        },
        Spec::So2 { .. } | Spec::So3 { .. } => false,
        _ => refspace::as_parts(spec).unwrap().0.iter().any(has_unbounded),
    }
}

pub fn c11_spaces(thorough: bool) -> Vec<Spec> {
    let mut v = Vec::new();
    // boxes: bounded, half-bounded, unbounded, tiny, huge
    for b in [
        Some(vec![(0.0, 4.0), (-1.0, 1.0)]),
        Some(vec![(0.0, 4.0), (f64::NEG_INFINITY, 1.0)]),
        Some(vec![(f64::NEG_INFINITY, f64::INFINITY), (0.0, 1.0)]),
        None,
        Some(vec![(1e-320, 2e-320), (-1e-300, 1e-300)]),
        Some(vec![(-1e300, 1e300), (0.0, 1.0)]),
        Some(vec![(-1e308, 1e308), (0.0, 1.0)]),
    ] {
        v.push(Spec::Rv { dim: 2, bounds: b, frac: None });
    }
    v.push(Spec::Rv { dim: 1, bounds: Some(vec![(-2.0, 3.0)]), frac: None });
    v.push(Spec::Rv { dim: 3, bounds: Some(vec![(-2.0, 3.0), (0.0, 1.0), (5.0, 6.0)]), frac: None });
    // angular intervals: inside, touching, spanning, clamped by the constructor
    for b in [None, Some((-1.0, 1.5)), Some((-PI / 2.0, PI / 2.0)), Some((-3.0, 3.0)), Some((0.5, PI)), Some((-PI, -0.5)), Some((-4.0, 4.0)), Some((-10.0, 1.0)), Some((3.0, 3.1)), Some((-1e-9, 1e-9))] {
        v.push(Spec::So2 { bounds: b, frac: None });
    }
    // cones: every radius class x two centres
    let id = [0.0, 0.0, 0.0, 1.0];
    let rx = crate::catalog::quat_axis_angle([1.0, 0.0, 0.0], 90.0);
    v.push(Spec::So3 { bounds: None, frac: None });
    let diag = crate::catalog::quat_axis_angle([1.0, 1.0, 0.3], 100.0);
    for c in [id, rx, diag] {
        let radii: Vec<f64> = if thorough { vec![0.0, 1e-10, 1e-6, 1e-4, 1e-3, 0.01, 0.02, 0.03, 0.04, 0.045, 0.05, 0.06, 0.1, 0.2, 0.5, 1.0, 1.2, PI / 2.0, 2.0, 2.5, PI, 4.0] } else { vec![0.0, 1e-6, 1e-3, 0.01, 0.03, 0.045, 0.06, 0.2, 0.5, 1.2, PI / 2.0, 2.5, PI] };
        for r in radii {
            v.push(Spec::So3 { bounds: Some((c, r)), frac: None });
        }
    }
    // compounds / SE(2) / SE(3)
    v.push(Spec::Cmp { parts: vec![Spec::Rv { dim: 2, bounds: Some(vec![(0.0, 4.0), (0.0, 4.0)]), frac: None }, Spec::So2 { bounds: Some((-3.0, 3.0)), frac: None }], weights: vec![1.0, 0.5] });
    v.push(Spec::Cmp { parts: vec![Spec::So3 { bounds: Some((id, 1.0)), frac: None }, Spec::Rv { dim: 1, bounds: Some(vec![(0.0, 1.0)]), frac: None }], weights: vec![1.0, 2.0] });
    // weight 0 (a component that does not count for the distance is still bounded), tiny and huge weights
    v.push(Spec::Cmp { parts: vec![Spec::Rv { dim: 2, bounds: Some(vec![(0.0, 4.0), (0.0, 4.0)]), frac: None }, Spec::So2 { bounds: Some((-1.0, 2.5)), frac: None }], weights: vec![1.0, 0.0] });
    v.push(Spec::Cmp { parts: vec![Spec::So2 { bounds: Some((-1.0, 1.5)), frac: None }, Spec::Rv { dim: 1, bounds: Some(vec![(0.0, 1.0)]), frac: None }, Spec::So3 { bounds: Some((id, 1.0)), frac: None }], weights: vec![0.0, 1e-300, 1e6] });
    v.push(Spec::Se2 { weight: 0.0, bounds: Some(vec![(0.0, 4.0), (0.0, 4.0), (-1.0, 2.5)]) });
    v.push(Spec::Se3 { weight: 0.0, bounds: Some(vec![(0.0, 4.0), (0.0, 4.0), (-1.0, 1.0)]) });
    v.push(Spec::Se2 { weight: 0.5, bounds: Some(vec![(0.0, 4.0), (0.0, 4.0), (-1.0, 2.5)]) });
    v.push(Spec::Se2 { weight: 0.5, bounds: None });
    v.push(Spec::Se3 { weight: 0.5, bounds: Some(vec![(0.0, 4.0), (0.0, 4.0), (-1.0, 1.0)]) });
    v
}

pub fn run_c11(tier: &'static str) -> i32 {
    use crate::kit::Cmp;
    use rayon::prelude::*;
    let t0 = Instant::now();
    let thorough = tier != "quick";
    let spaces = c11_spaces(thorough);
    let rep = spaces
        .par_iter()
        .map(|spec| {
            let mut rep = Report::new();
            rep.count("spaces", 1);
            let k = match spec {
                Spec::So3 { .. } => if thorough { 12 } else { 7 },
                Spec::Rv { dim: 3, .. } => 12,
                Spec::Rv { .. } | Spec::So2 { .. } => 64,
                Spec::Se3 { .. } => if thorough { 4 } else { 2 },
                _ => if thorough { 8 } else { 5 },
            };
            macro_rules! both {
                ($k:ty) => {{
                    c11_enforce::<$k>(spec, &mut rep);
                    c11_sample::<$k>(spec, k, &mut rep);
                }};
            }
            match spec {
                Spec::Rv { .. } => both!(Rv),
                Spec::So2 { .. } => both!(So2),
                Spec::So3 { .. } => both!(So3),
                Spec::Cmp { .. } => both!(Cmp),
                Spec::Se2 { .. } => both!(Se2),
                Spec::Se3 { .. } => both!(Se3),
            }
            rep.sample(|| json!({"space": spec.json(), "states": state_lattice_for(spec).len(), "rng_word_lattice": k + 3, "words_per_attempt": words_per_attempt(spec)}));
            rep
        })
        .reduce(Report::new, |mut a, b| {
            a.merge(b);
            a
        });
    // narrow rotation cones (and cones around a non-identity centre), which the scripted word lattice
    // cannot reach: the real generator over a seed lattice - every streamed sample satisfies the bounds
    let mut rep = rep;
    {
        use rand::SeedableRng;
        let rx = crate::catalog::quat_axis_angle([1.0, 0.0, 0.0], 90.0);
        let rz = crate::catalog::quat_axis_angle([0.0, 0.0, 1.0], 170.0);
        let id = [0.0, 0.0, 0.0, 1.0];
        let cones: Vec<([f64; 4], f64)> = vec![(id, 0.24), (id, 0.15), (rx, 0.24), (rz, 0.3), (id, 0.4), (rx, 0.8)];
        let (seeds, per) = if thorough { (128u64, 200usize) } else { (48, 100) };
        let r = cones
            .par_iter()
            .map(|(c, a)| {
                let mut rep = Report::new();
                let spec = Spec::So3 { bounds: Some((*c, *a)), frac: None };
                let bad: Vec<Option<(u64, usize, V, bool, bool)>> = (0..seeds)
                    .into_par_iter()
                    .map(|seed| {
                        let sp = So3::build(&spec);
                        let mut rng = rand::rngs::StdRng::seed_from_u64(seed);
                        for i in 0..per {
                            match guarded(|| sp.sample_uniform(&mut rng)) {
                                Ok(Ok(s)) => {
                                    let v = So3::to_v(&s);
                                    let (ok, model) = (sp.satisfies_bounds(&s), refspace::in_bounds(&spec, &v, 1e-9, 2e-7));
                                    if !ok || !model {
                                        return Some((seed, i, v, ok, model));
                                    }
                                }
                                _ => return Some((seed, i, V::So3([f64::NAN; 4]), false, false)),
                            }
                        }
                        None
                    })
                    .collect();
                rep.count("evaluations", seeds * per as u64);
                rep.count("narrow_cone_stream_samples", seeds * per as u64);
                if let Some((seed, i, v, ok, model)) = bad.into_iter().flatten().next() {
                    let what = if !v.all_finite() { "sample_uniform failed or unwound on a real generator stream".to_string() } else { format!("streamed sample {i} of seed {seed}: satisfies_bounds says {ok}, the independent cone model says {model}") };
                    viol(&mut rep, "C11", "SO3|stream|sample-violates-bounds|narrow-cone", what, json!({"space": spec.json(), "seed": seed, "draw": i, "sample": v.json()}));
                }
                rep
            })
            .reduce(Report::new, |mut a, b| {
                a.merge(b);
                a
            });
        rep.merge(r);
    }
    let meta = CheckMeta {
        prop: "C11",
        tier,
        level: "exploration",
        rule: "bounds lattice (boxes incl. half-bounded / tiny / huge, angular intervals inside / touching / beyond [-pi,pi], cones of every radius class x 2 centres, compounds, SE(2), SE(3)) x state lattice (far outside, boundary, non-canonical, zero / non-unit quaternion) for enforce/satisfies; every tuple of an RNG-word lattice (incl. the words mapping to 0 and 1-2^-52) fed to the real sampler through a scripted RngCore; distinct_nontrivial = distinct resulting states",
        exhaustive: true,
        bounds: json!({"spaces": spaces.len()}),
        assumptions: vec!["the cone centre is a unit quaternion".into(), "rand 0.9 maps one u64 word to one f64 (checked by the sampler results themselves)".into()],
        must_be_positive: vec!["enforce_then_satisfies_ok", "already_satisfying_states", "samples_drawn", "sample_unbounded_errors"],
    };
    finish(&meta, rep, t0)
}

// ----------------------------------------------------------------------------------------------
// C12

fn bound_values() -> Vec<f64> {
    vec![f64::NEG_INFINITY, -5.0, -PI, -1.0, 0.0, 1.0, PI, 5.0, f64::INFINITY, f64::NAN, -0.0, 1e-300, -1e-300, f64::MIN_POSITIVE, 1e308, -1e308, f64::MAX, f64::MIN]
}

fn wf_box(stored: &[(f64, f64)], dim: usize) -> Result<(), String> {
    if stored.len() != dim {
        return Err(format!("{} bounds for dimension {dim}", stored.len()));
    }
    for (l, u) in stored {
        if l.is_nan() || u.is_nan() {
            return Err("NaN bound".into());
        }
        if !(l < u) {
            return Err(format!("lower {l} not strictly below upper {u}"));
        }
    }
    Ok(())
}
fn wf_so2(stored: (f64, f64)) -> Result<(), String> {
    let (l, u) = stored;
    if l.is_nan() || u.is_nan() {
        return Err("NaN bound".into());
    }
    if !(l < u) {
        return Err(format!("lower {l} not strictly below upper {u}"));
    }
    if l < -PI || u > PI {
        return Err(format!("({l},{u}) outside [-pi,pi]"));
    }
    Ok(())
}

fn usable<K: Kit>(sp: &K::SP, spec_like: &Spec, bounded: bool) -> Result<(), String> {
    // every Ok space survives sample (if bounded), enforce, satisfies on the state lattice
    let lat = state_lattice_for(spec_like);
    for v in lat.iter() {
        let s = K::from_v(v);
        let r = guarded(|| {
            let mut e = s.clone();
            sp.enforce_bounds(&mut e);
            sp.satisfies_bounds(&e) as u8 + sp.satisfies_bounds(&s) as u8
        });
        if let Err(c) = r {
            return Err(format!("bounds operation unwound on {v:?}: {}", pmsg(c)));
        }
    }
    if bounded {
        // a narrow cone around a non-identity centre is not reachable by a scripted word stream
        // without assuming the word-to-coordinate mapping (see c11_sample)
        if let Spec::So3 { bounds: Some((c, r)), .. } = spec_like {
            if *c != [0.0, 0.0, 0.0, 1.0] && *r < 0.5 {
                return Ok(());
            }
        }
        let tail = accept_tail(spec_like);
        for w in [0u64, u64::MAX, word_for_unit(0.5), word_for_unit(0.25)] {
            let r = guarded(|| {
                let mut words = vec![w; 4];
                words.extend_from_slice(&tail);
                words.extend((0..16384u64).map(crate::rngseam::mix));
                let mut rng = WordRng::new(words);
                rng.cap = 16000;
                sp.sample_uniform(&mut rng).is_ok()
            });
            match r {
                // the scripted words ran out: the harness cannot decide this case (never a verdict)
                Err(Caught::Harness(_)) => {}
                Err(c) => return Err(format!("sample_uniform unwound: {}", pmsg(c))),
                Ok(_) => {}
            }
        }
    }
    Ok(())
}

fn c12_rv(rep: &mut Report, thorough: bool) {
    let vals = bound_values();
    // dimension x bounds length
    for dim in 0..=3usize {
        for len in 0..=3usize {
            rep.count("evaluations", 1);
            let b: Vec<(f64, f64)> = (0..len).map(|i| (i as f64, i as f64 + 1.0)).collect();
            let r = guarded(|| RealVectorStateSpace::new(dim, Some(b.clone())));
            match r {
                Err(c) => viol(rep, "C12", "RealVectorStateSpace|new-panic", format!("constructor unwound: {}", pmsg(c)), json!({"dim": dim, "len": len})),
                Ok(Ok(sp)) => {
                    rep.count("constructed_ok", 1);
                    if let Err(e) = wf_box(&sp.bounds, dim) {
                        viol(rep, "C12", "RealVectorStateSpace|ill-formed-accepted|count", format!("Ok with ill-formed stored bounds: {e}"), json!({"dim": dim, "len": len}));
                    }
                    if sp.dimension != dim {
                        viol(rep, "C12", "RealVectorStateSpace|dimension-not-stored", "stored dimension differs".into(), json!({"dim": dim}));
                    }
                }
                Ok(Err(e)) => {
                    rep.count("constructed_err", 1);
                    if dim == len {
                        viol(rep, "C12", "RealVectorStateSpace|well-formed-rejected", format!("well-formed bounds rejected with {e:?}"), json!({"dim": dim, "len": len}));
                    } else if !matches!(e, StateSpaceError::DimensionMismatch { expected, found } if expected == dim && found == len) {
                        viol(rep, "C12", "RealVectorStateSpace|wrong-error|count", format!("length mismatch reported as {e:?}"), json!({"dim": dim, "len": len}));
                    }
                }
            }
        }
        rep.count("evaluations", 1);
        match guarded(|| RealVectorStateSpace::new(dim, None)) {
            Ok(Ok(sp)) => {
                if dim == 0 || sp.bounds.len() != dim {
                    viol(rep, "C12", "RealVectorStateSpace|ill-formed-accepted|none", "unbounded constructor accepted an ill-formed request".into(), json!({"dim": dim}));
                }
            }
            Ok(Err(e)) => {
                if dim != 0 || e != StateSpaceError::ZeroDimensionUnbounded {
                    viol(rep, "C12", "RealVectorStateSpace|wrong-error|none", format!("unbounded constructor returned {e:?}"), json!({"dim": dim}));
                }
            }
            Err(c) => viol(rep, "C12", "RealVectorStateSpace|new-panic", format!("constructor unwound: {}", pmsg(c)), json!({"dim": dim})),
        }
    }
    // every ordered pair of the value lattice, in each position of a 2-d box
    for &l in &vals {
        for &u in &vals {
            for pos in 0..2 {
                let mut b = vec![(0.0, 1.0), (0.0, 1.0)];
                b[pos] = (l, u);
                c12_rv_box(&b, rep);
            }
        }
    }
    // ... and in BOTH positions at once (a test on the box as a whole - a volume, a sum of widths - can be
    // right for every single bad side and wrong for two), and three sides over a smaller lattice
    let sub: Vec<f64> = if thorough { vals.clone() } else { vec![f64::NEG_INFINITY, -1.0, 0.0, 1.0, f64::INFINITY, f64::NAN, 1e-300, 1e308, -1e308] };
    for &l0 in &sub {
        for &u0 in &sub {
            for &l1 in &sub {
                for &u1 in &sub {
                    c12_rv_box(&[(l0, u0), (l1, u1)], rep);
                }
            }
        }
    }
    let sub3: Vec<f64> = if thorough { vec![f64::NEG_INFINITY, -1.0, 0.0, 1.0, f64::INFINITY, f64::NAN, 1e308] } else { vec![-1.0, 0.0, 1.0, f64::INFINITY] };
    let pairs3: Vec<(f64, f64)> = sub3.iter().flat_map(|l| sub3.iter().map(move |u| (*l, *u))).collect();
    for a in &pairs3 {
        for b in &pairs3 {
            for c in &pairs3 {
                c12_rv_box(&[*a, *b, *c], rep);
            }
        }
    }
}

/// One box handed to `RealVectorStateSpace::new`: `Ok` exactly for well-formed bounds, the documented error
/// otherwise, and every returned space usable.
fn c12_rv_box(b: &[(f64, f64)], rep: &mut Report) {
    let dim = b.len();
    rep.count("evaluations", 1);
    let input_wf = b.iter().all(|(l, u)| !l.is_nan() && !u.is_nan() && l < u);
    let r = guarded(|| RealVectorStateSpace::new(dim, Some(b.to_vec())));
    let det = json!({"bounds": format!("{b:?}")});
    let mut hb: Vec<u64> = b.iter().flat_map(|(l, u)| [l.to_bits(), u.to_bits()]).collect();
    match r {
        Err(c) => viol(rep, "C12", "RealVectorStateSpace|new-panic", format!("constructor unwound: {}", pmsg(c)), det),
        Ok(Ok(sp)) => {
            rep.count("constructed_ok", 1);
            hb.push(1);
            rep.distinct.insert(h128(&hb));
            let cls = if b.iter().any(|(l, u)| l.is_nan() || u.is_nan()) { "nan" } else { "order" };
            if let Err(e) = wf_box(&sp.bounds, dim) {
                viol(rep, "C12", &format!("RealVectorStateSpace|ill-formed-accepted|{cls}"), format!("Ok with ill-formed stored bounds: {e}"), det.clone());
            }
            let spec = Spec::Rv { dim, bounds: Some(b.to_vec()), frac: None };
            let bounded = sp.bounds.iter().all(|(l, u)| l.is_finite() && u.is_finite());
            if let Err(e) = usable::<Rv>(&sp, &spec, bounded) {
                viol(rep, "C12", &format!("RealVectorStateSpace|returned-space-unusable|{cls}"), e, det);
            }
        }
        Ok(Err(e)) => {
            rep.count("constructed_err", 1);
            hb.push(0);
            rep.distinct.insert(h128(&hb));
            if input_wf {
                viol(rep, "C12", "RealVectorStateSpace|well-formed-rejected", format!("well-formed bounds rejected with {e:?}"), det);
            } else if !matches!(e, StateSpaceError::InvalidBound { .. }) {
                viol(rep, "C12", "RealVectorStateSpace|wrong-error|order", format!("ill-ordered bounds reported as {e:?}"), det);
            }
        }
    }
}

fn c12_so2(rep: &mut Report) {
    let mut vals = bound_values();
    vals.extend([4.0, -4.0, 3.0, -3.0, next_up(PI), next_down(-PI), next_down(PI), next_up(-PI), 2.0 * PI, -2.0 * PI, 3.0 * PI, 0.5, -0.5]);
    for &l in &vals {
        for &u in &vals {
            rep.count("evaluations", 1);
            let det = json!({"bounds": format!("({l},{u})")});
            let canon_in = !l.is_nan() && !u.is_nan() && l < u && l >= -PI && u <= PI;
            match guarded(|| SO2StateSpace::new(Some((l, u)))) {
                Err(c) => viol(rep, "C12", "SO2StateSpace|new-panic", format!("constructor unwound: {}", pmsg(c)), det),
                Ok(Ok(sp)) => {
                    rep.count("constructed_ok", 1);
                    rep.distinct.insert(h128(&[l.to_bits(), u.to_bits(), 2, 1]));
                    let cls = if l.is_nan() || u.is_nan() {
                        "nan"
                    } else if l > PI || u < -PI {
                        "interval-outside-[-pi,pi]"
                    } else {
                        "order"
                    };
                    if let Err(e) = wf_so2(sp.bounds) {
                        viol(rep, "C12", &format!("SO2StateSpace|ill-formed-accepted|{cls}"), format!("Ok with ill-formed stored bounds {:?}: {e}", sp.bounds), det.clone());
                    }
                    let spec = Spec::So2 { bounds: Some(sp.bounds), frac: None };
                    if let Err(e) = usable::<So2>(&sp, &spec, true) {
                        viol(rep, "C12", &format!("SO2StateSpace|returned-space-unusable|{cls}"), e, det);
                    }
                }
                Ok(Err(e)) => {
                    rep.count("constructed_err", 1);
                    rep.distinct.insert(h128(&[l.to_bits(), u.to_bits(), 2, 0]));
                    if canon_in {
                        viol(rep, "C12", "SO2StateSpace|well-formed-rejected", format!("well-formed bounds rejected with {e:?}"), det);
                    } else if !matches!(e, StateSpaceError::InvalidBound { .. }) {
                        viol(rep, "C12", "SO2StateSpace|wrong-error", format!("reported as {e:?}"), det);
                    }
                }
            }
        }
    }
    rep.count("evaluations", 1);
    match guarded(|| SO2StateSpace::new(None)) {
        Ok(Ok(sp)) if wf_so2(sp.bounds).is_ok() => {}
        _ => viol(rep, "C12", "SO2StateSpace|default-ill-formed", "default constructor failed or stored ill-formed bounds".into(), json!({})),
    }
}

fn c12_so3(rep: &mut Report) {
    let id = [0.0, 0.0, 0.0, 1.0];
    let rx = crate::catalog::quat_axis_angle([1.0, 0.0, 0.0], 90.0);
    let diag = crate::catalog::quat_axis_angle([1.0, 1.0, 0.3], 130.0);
    let neg_id = [0.0, 0.0, 0.0, -1.0];
    for c in [id, rx, diag, neg_id] {
        for r in [-1.0, -0.0, 0.0, 1e-10, 1.0, PI, 4.0, f64::INFINITY, f64::NEG_INFINITY, f64::NAN, -1e-300, 1e-300, 0.5, 2.0, 3.0, next_up(PI), next_down(PI), PI / 2.0, f64::MAX, -f64::MIN_POSITIVE] {
            rep.count("evaluations", 1);
            let det = json!({"centre": format!("{c:?}"), "radius": format!("{r}")});
            match guarded(|| SO3StateSpace::new(Some((crate::kit::so3_of(&c), r)))) {
                Err(e) => viol(rep, "C12", "SO3StateSpace|new-panic", format!("constructor unwound: {}", pmsg(e)), det),
                Ok(Ok(sp)) => {
                    rep.count("constructed_ok", 1);
                    rep.distinct.insert(h128(&[r.to_bits(), c[0].to_bits(), 3, 1]));
                    let stored = sp.bounds.1;
                    if stored.is_nan() || !(stored >= 0.0) || stored > PI {
                        viol(rep, "C12", "SO3StateSpace|ill-formed-accepted|radius", format!("Ok with stored radius {stored}"), det.clone());
                    }
                    let spec = Spec::So3 { bounds: Some((c, stored)), frac: None };
                    // sampling a tiny cone around a non-identity centre can legitimately take long; skip it there
                    let bounded = !(stored < 1e-6 && stored >= 1e-9);
                    if let Err(e) = usable::<So3>(&sp, &spec, bounded) {
                        viol(rep, "C12", "SO3StateSpace|returned-space-unusable", e, det);
                    }
                }
                Ok(Err(e)) => {
                    rep.count("constructed_err", 1);
                    rep.distinct.insert(h128(&[r.to_bits(), c[0].to_bits(), 3, 0]));
                    if r >= 0.0 && r <= PI {
                        viol(rep, "C12", "SO3StateSpace|well-formed-rejected", format!("radius {r} rejected with {e:?}"), det);
                    } else if !matches!(e, StateSpaceError::InvalidAngularDistance { .. }) {
                        viol(rep, "C12", "SO3StateSpace|wrong-error", format!("reported as {e:?}"), det);
                    }
                }
            }
        }
    }
}

/// One bounds vector handed to `SE2StateSpace::new` / `SE3StateSpace::new` (`pos`, `pc`: the side that was varied, for the class name).
fn c12_se_case(b: &[(f64, f64)], pos: usize, pc: &(f64, f64), rep: &mut Report) {
    let n = b.len();
    let b = b.to_vec();
    for se3 in [false, true] {
        rep.count("evaluations", 1);
        let det = json!({"space": if se3 { "SE3" } else { "SE2" }, "bounds": format!("{b:?}")});
        let name = if se3 { "SE3StateSpace" } else { "SE2StateSpace" };
        // independent prediction from the documented composition
        let want_wf = n == 3
            && b.iter().enumerate().all(|(i, (l, u))| {
                if !se3 && i == 2 {
                    let s = (l.max(-PI), u.min(PI));
                    !l.is_nan() && !u.is_nan() && wf_so2(s).is_ok() && l < u
                } else {
                    !l.is_nan() && !u.is_nan() && l < u
                }
            });
        let r: Result<Result<bool, StateSpaceError>, Caught> = if se3 {
            guarded(|| SE3StateSpace::new(0.5, Some(b.clone())).map(|sp| usable::<Se3>(&sp, &Spec::Se3 { weight: 0.5, bounds: Some(vec![(0.0, 1.0); 3]) }, false).is_ok()))
        } else {
            guarded(|| SE2StateSpace::new(0.5, Some(b.clone())).map(|sp| usable::<Se2>(&sp, &Spec::Se2 { weight: 0.5, bounds: Some(vec![(0.0, 1.0), (0.0, 1.0), (-1.0, 1.0)]) }, false).is_ok()))
        };
        match r {
            Err(c) => viol(rep, "C12", &format!("{name}|new-panic"), format!("constructor unwound: {}", pmsg(c)), det),
            Ok(Ok(us)) => {
                rep.count("constructed_ok", 1);
                rep.distinct.insert(h128(&[n as u64, pos as u64, pc.0.to_bits(), pc.1.to_bits(), se3 as u64]));
                if !want_wf {
                    let cls = if n != 3 { "count" } else if pc.0.is_nan() || pc.1.is_nan() { "nan" } else if !se3 && pos == 2 && (pc.0 > PI || pc.1 < -PI) { "interval-outside-[-pi,pi]" } else { "order" };
                    viol(rep, "C12", &format!("{name}|ill-formed-accepted|{cls}"), "Ok for ill-formed bounds".into(), det.clone());
                }
                if !us {
                    viol(rep, "C12", &format!("{name}|returned-space-unusable"), "bounds operations unwound on the returned space".into(), det);
                }
            }
            Ok(Err(e)) => {
                rep.count("constructed_err", 1);
                if want_wf {
                    viol(rep, "C12", &format!("{name}|well-formed-rejected"), format!("rejected with {e:?}"), det);
                } else if n != 3 && !matches!(e, StateSpaceError::DimensionMismatch { expected: 3, .. }) {
                    viol(rep, "C12", &format!("{name}|wrong-error"), format!("wrong count reported as {e:?}"), det);
                }
            }
        }
    }
}

fn c12_se(rep: &mut Report) {
    let mut pair_cases: Vec<(f64, f64)> = vec![(0.0, 1.0), (1.0, 0.0), (0.0, 0.0), (f64::NAN, 1.0), (0.0, f64::INFINITY), (4.0, 5.0), (-4.0, 4.0), (-1.0, 2.5)];
    // every ordered pair of the SO(2) value lattice as well (the yaw bound of SE(2) goes through SO2StateSpace::new)
    let mut vals = bound_values();
    vals.extend([4.0, -4.0, 3.0, -3.0, next_up(PI), next_down(-PI), 2.0 * PI, -2.0 * PI]);
    for &l in &vals {
        for &u in &vals {
            if !pair_cases.iter().any(|(a, b)| a.to_bits() == l.to_bits() && b.to_bits() == u.to_bits()) {
                pair_cases.push((l, u));
            }
        }
    }
    for n in 0..=4usize {
        for pc in &pair_cases {
            for pos in 0..n.max(1) {
                if n == 0 && pos > 0 {
                    continue;
                }
                let mut b: Vec<(f64, f64)> = vec![(0.0, 1.0); n];
                if n > 0 {
                    b[pos] = *pc;
                }
                c12_se_case(&b, pos, pc, rep);
            }
        }
    }
    // two and three sides off at once (a test on the box as a whole can be right for every single bad side)
    let few: Vec<(f64, f64)> = vec![(0.0, 1.0), (1.0, 0.0), (0.0, 0.0), (f64::NAN, 1.0), (0.0, f64::INFINITY), (f64::INFINITY, f64::NEG_INFINITY), (-1.0, -2.0), (4.0, 5.0), (-4.0, 4.0), (0.0, 2.0 * PI), (-10.0, 1.0), (2.0, -2.0)];
    for p0 in &few {
        for p1 in &few {
            for p2 in &few {
                let pos = if p2.0.to_bits() != 0f64.to_bits() || p2.1 != 1.0 { 2 } else if p1.0.to_bits() != 0f64.to_bits() || p1.1 != 1.0 { 1 } else { 0 };
                let pc = [p0, p1, p2][pos];
                c12_se_case(&[*p0, *p1, *p2], pos, pc, rep);
            }
        }
    }
    // compound: mismatched lengths are documented to panic (assert) in the core constructor — the
    // property lists it under "the right number of bounds"? No: CompoundStateSpace::new takes
    // weights, not bounds; only the matching-length case is exercised here.
    rep.count("evaluations", 1);
    let _ = CompoundStateSpace::new(vec![], vec![]);
}

fn c12_states(rep: &mut Report) {
    // SO(2) / SE(2) angles from tiny to 1e300
    let mut angles = so2_angles(true);
    for e in [-300, -100, -20, -5, 0, 1, 2, 5, 10, 15, 16, 17, 20, 50, 100, 200, 300] {
        for m in [1.0, -1.0, 3.7, -2.9] {
            angles.push(m * 10f64.powi(e));
        }
    }
    // multiples of pi/2 (odd multiples of pi sit exactly on the seam) and their floating-point neighbours
    for k in -4096i64..=4096 {
        let x = k as f64 * (PI / 2.0);
        angles.push(x);
        if k.abs() <= 128 || k % 97 == 0 {
            angles.push(next_up(x));
            angles.push(next_down(x));
        }
    }
    for k in (4097i64..2_000_000).step_by(4099) {
        angles.push(k as f64 * PI);
        angles.push(-(k as f64) * PI);
    }
    for e in 0..1023 {
        angles.push(2f64.powi(e));
        angles.push(-(2f64.powi(e)) * 1.0000000000000002);
    }
    for &a in &angles {
        rep.count("evaluations", 2);
        rep.distinct.insert(h128(&[a.to_bits(), 7]));
        for se2 in [false, true] {
            let name = if se2 { "SE2State" } else { "SO2State" };
            let r = guarded(|| if se2 { SE2State::new(1.0, 2.0, a).get_yaw() } else { SO2State::new(a).value });
            let det = json!({"input": a});
            match r {
                Err(c) => viol(rep, "C12", &format!("{name}|new-panic"), format!("constructor unwound: {}", pmsg(c)), det),
                Ok(v) => {
                    if !(v >= -PI && v <= PI) {
                        viol(rep, "C12", &format!("{name}|not-in-range"), format!("stored angle {v} outside [-pi,pi]"), det.clone());
                    }
                    let tol = angle_tol(a) + 4.0 * f64::EPSILON * PI;
                    if tol < PI {
                        rep.count("congruence_checked", 1);
                        let d = wrap_ref(wrap_ref(a) - v).abs();
                        if !(d <= tol) {
                            viol(rep, "C12", &format!("{name}|not-congruent"), format!("stored angle {v} is not congruent to the input modulo 2 pi (off by {d})"), det);
                        }
                    }
                }
            }
        }
    }
    // quaternion normalisation
    // (the band around sqrt(f64::MAX) = 1.34e154: one square fits, the sum of four does not)
    let comps = [0.0, 1e-200, 1e-10, 4e-10, 6e-10, 1e-9, 2e-9, 1e-5, 1.0, -1.0, 3.0, 1e100, 0.7e154, 1e154, -1.3e154, 1.4e154, 1e160, -1e200];
    let mut quats: Vec<[f64; 4]> = Vec::new();
    for &x in &comps {
        for &y in &comps {
            for &(z, w) in &[(0.0, 0.0), (0.0, 1.0), (0.0, -2.0), (0.0, 1e-10), (0.0, 1e160), (1e154, 1e154), (-0.7e154, 0.7e154), (1.3e154, 0.0)] {
                quats.push([x, y, z, w]);
            }
        }
    }
    // scale sweep: five directions at EVERY binary order of magnitude a double has (2^-1074 .. 2^1023) -
    // wherever the squares underflow, become subnormal, or overflow, the answer is still a unit quaternion
    // parallel to the input, or ZeroMagnitude for a magnitude that is really negligible
    for e in -1074i32..=1023 {
        let sc = 2f64.powi(e);
        for d in [[1.0, 0.0, 0.0, 0.0], [0.0, 3.0, 0.0, 0.0], [1.0, -2.0, 3.0, -4.0], [1.0, 1.0, 1.0, 1.0], [1.0, 1e-3, 0.0, -0.5]] {
            let q = [d[0] * sc, d[1] * sc, d[2] * sc, d[3] * sc];
            if q.iter().all(|c| c.is_finite()) {
                quats.push(q);
                rep.count("normalise_scale_sweep", 1);
            }
        }
    }
    // almost-unit inputs (a unit quaternion that drifted over a few hundred products): normalise still
    // returns a UNIT quaternion, not "close enough, unchanged"
    for d in [[1.0, 0.0, 0.0, 0.0], [0.0, 0.6, 0.0, 0.8], [1.0, -2.0, 3.0, -4.0], [1.0, 1.0, 1.0, 1.0], [0.3, 1e-3, 0.0, -0.5]] {
        let n = (d[0] * d[0] + d[1] * d[1] + d[2] * d[2] + d[3] * d[3] as f64).sqrt();
        for k in [0.001f64, 0.01, 0.05, 1.0, 5.0, 20.0, 40.0, 49.0, 100.0, 1000.0] {
            for sgn in [1.0, -1.0] {
                let f = (1.0 + sgn * k * 1e-8) / n;
                quats.push([d[0] * f, d[1] * f, d[2] * f, d[3] * f]);
                rep.count("normalise_almost_unit_inputs", 1);
            }
        }
    }
    {
        {
            for q in quats {
                rep.count("evaluations", 1);
                let [x, y, z, w] = q;
                let r = guarded(|| SO3State::new(x, y, z, w).normalise());
                let det = json!({"input_xyzw": q});
                let true_norm = {
                    let m = q.iter().fold(0.0f64, |m, c| m.max(c.abs()));
                    if m == 0.0 { 0.0 } else { m * q.iter().map(|c| (c / m).powi(2)).sum::<f64>().sqrt() }
                };
                match r {
                    Err(c) => viol(rep, "C12", "SO3State|normalise-panic", format!("normalise unwound: {}", pmsg(c)), det),
                    Ok(Err(StateError::ZeroMagnitude)) => {
                        rep.count("normalise_zero_errors", 1);
                        // legitimate for tiny magnitudes only
                        if true_norm > 1e-8 {
                            viol(rep, "C12", "SO3State|normalise|spurious-zero-magnitude", format!("ZeroMagnitude for a quaternion of norm {true_norm}"), det);
                        }
                    }
                    Ok(Ok(u)) => {
                        rep.count("normalise_ok", 1);
                        let uq = [u.x, u.y, u.z, u.w];
                        let n = quat_norm(&uq);
                        let class = if true_norm > 1e150 { "overflow-huge-components" } else if true_norm < 1e-150 { "underflow-tiny-components" } else { "ordinary" };
                        if !((n - 1.0).abs() <= 1e-12) {
                            viol(rep, "C12", &format!("SO3State|normalise|not-unit|{class}"), format!("result has norm {n}"), det.clone());
                        } else {
                            // parallel: same direction as the input
                            // (direction computed from the components scaled by the largest: the true norm itself may overflow)
                            let m = q.iter().fold(0.0f64, |m, c| m.max(c.abs()));
                            let rel: f64 = q.iter().map(|c| (c / m).powi(2)).sum::<f64>().sqrt();
                            let dot: f64 = (0..4).map(|i| uq[i] * ((q[i] / m) / rel)).sum();
                            if !((dot - 1.0).abs() <= 1e-9) {
                                viol(rep, "C12", &format!("SO3State|normalise|not-parallel|{class}"), format!("result is not parallel to the input (cos = {dot})"), det);
                            }
                        }
                    }
                }
            }
        }
    }
    let _ = so3_dist;
}

pub fn run_c12(tier: &'static str) -> i32 {
    let t0 = Instant::now();
    let mut rep = Report::new();
    c12_rv(&mut rep, tier != "quick");
    c12_so2(&mut rep);
    c12_so3(&mut rep);
    c12_se(&mut rep);
    c12_states(&mut rep);
    rep.sample(|| json!({"RealVectorStateSpace::new": "(2, [(l,u),(0,1)]) for every ordered pair (l,u) over {-inf,-5,-pi,-1,0,1,pi,5,inf,NaN}", "SO2StateSpace::new": "every ordered pair over the same lattice plus {+-3,+-4,pi+ulp,-pi-ulp}", "SO3State::normalise": "components over {0,1e-200,...,1e160,-1e200}"}));
    let meta = CheckMeta {
        prop: "C12",
        tier,
        level: "exploration",
        rule: "every constructor argument of the lattice: R^n dimension x bounds-length in {0..3}^2, every ordered bound pair over {-inf,-5,-pi,-1,0,1,pi,5,inf,NaN} (SO(2): plus +-3,+-4,pi+-ulp) in each position and (over a sub-lattice) in two and three positions at once, SO(3) radius lattice x 2 centres, SE(2)/SE(3) with 0-4 bounds x pair cases x position and 12^3 three-sided combinations; every Ok space is then exercised (enforce/satisfies on the state lattice, scripted sampling) under catch_unwind; state constructors on angles tiny..1e300 and quaternion components 0..1e200; distinct_nontrivial = distinct (arguments, outcome class)",
        exhaustive: true,
        bounds: json!({}),
        assumptions: vec!["the cone centre is a unit quaternion (SO3State::new documents normalisation as the caller's job)".into(), "above ~1e16 an angle's congruence class is not representable; only the range is checked there".into()],
        must_be_positive: vec!["constructed_ok", "constructed_err", "congruence_checked", "normalise_ok", "normalise_zero_errors"],
    };
    finish(&meta, rep, t0)
}

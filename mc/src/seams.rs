//! The seams through which the harness owns the planners' environment:
//! scripted uniform sampler (`Scripted`), goal (`HGoal`), validity checker (`World`),
//! and the per-thread callback counter used for deadline landing / work caps.

use crate::kit::{Kit, V};
use oxmpl::base::error::StateSamplingError;
use oxmpl::base::goal::{Goal, GoalRegion, GoalSampleableRegion};
use oxmpl::base::space::StateSpace;
use oxmpl::base::validity::StateValidityChecker;
use rand::Rng;
use std::cell::{Cell, RefCell};
use std::sync::Arc;

// ------------------------------------------------------------------------------------------
// per-thread event counter / deadline landing / work cap

#[derive(Clone, Copy, Debug, PartialEq, Eq)]
pub enum Cb {
    Sample,
    GoalSample,
    Valid,
    GoalPred,
}

thread_local! {
    /// (seq, callback counters before the call) of every sampler call (uniform or goal)
    static SAMPLE_MARKS: std::cell::RefCell<Vec<(u64, [u64; 4])>> = const { std::cell::RefCell::new(Vec::new()) };
    static SEQ: Cell<u64> = const { Cell::new(0) };
    static LAND_READS_BASE: Cell<u64> = const { Cell::new(0) };
    static LAND_SKIPPED: Cell<bool> = const { Cell::new(false) };
    /// If set: at the callback with this global index, jump the logical clock by JUMP_NS.
    static LAND_AT: Cell<u64> = const { Cell::new(u64::MAX) };
    static LANDED: Cell<Option<(u64, u8)>> = const { Cell::new(None) };
    static VALID_CAP: Cell<u64> = const { Cell::new(u64::MAX) };
    static VALID_CNT: Cell<u64> = const { Cell::new(0) };
    static CB_COUNTS: Cell<[u64; 4]> = const { Cell::new([0; 4]) };
}

/// Marker payloads for harness-initiated unwinding.
#[derive(Debug)]
pub struct WorkCapHit(pub u64);
#[derive(Debug)]
pub struct ScriptExhausted(pub &'static str);

pub fn sample_marks() -> Vec<(u64, [u64; 4])> {
    SAMPLE_MARKS.with(|m| m.borrow().clone())
}

pub fn seam_reset() {
    SAMPLE_MARKS.with(|m| m.borrow_mut().clear());
    SEQ.with(|s| s.set(0));
    LAND_AT.with(|s| s.set(u64::MAX));
    LANDED.with(|s| s.set(None));
    VALID_CAP.with(|s| s.set(u64::MAX));
    VALID_CNT.with(|s| s.set(0));
    CB_COUNTS.with(|s| s.set([0; 4]));
}
pub fn set_landing(at: u64) {
    LAND_AT.with(|s| s.set(at));
    LANDED.with(|s| s.set(None));
    LAND_READS_BASE.with(|b| b.set(oxmpl::verif::clock_reads()));
    LAND_SKIPPED.with(|l| l.set(false));
}
/// true when the requested landing fell on a callback made before the call's timer was running
pub fn landing_skipped() -> bool {
    LAND_SKIPPED.with(|l| l.get())
}
pub fn landed() -> Option<(u64, u8)> {
    LANDED.with(|s| s.get())
}
pub fn set_valid_cap(cap: u64) {
    VALID_CAP.with(|s| s.set(cap));
    VALID_CNT.with(|s| s.set(0));
}
pub fn valid_count() -> u64 {
    VALID_CNT.with(|s| s.get())
}
pub fn seq_now() -> u64 {
    SEQ.with(|s| s.get())
}
pub fn cb_counts() -> [u64; 4] {
    CB_COUNTS.with(|s| s.get())
}

const JUMP_NS: u64 = 1 << 50;
pub const TOTAL_CB_CAP: u64 = 5_000_000;
/// The cap in force (callbacks per rig lifetime). The bounded path explorations lower it: a sequence of at
/// most five samples needs a few hundred thousand callbacks at the finest resolution, and a tree on which
/// every execution runs into the cap is then explored in minutes instead of hours.
pub static CB_CAP: std::sync::atomic::AtomicU64 = std::sync::atomic::AtomicU64::new(TOTAL_CB_CAP);

#[inline]
fn on_cb(kind: Cb) -> u64 {
    let j = SEQ.with(|s| {
        let v = s.get();
        s.set(v + 1);
        v
    });
    if kind == Cb::Sample || kind == Cb::GoalSample {
        let before = CB_COUNTS.with(|c| c.get());
        SAMPLE_MARKS.with(|m| m.borrow_mut().push((j, before)));
    }
    CB_COUNTS.with(|c| {
        let mut a = c.get();
        a[kind as usize] += 1;
        c.set(a);
    });
    if LAND_AT.with(|l| l.get()) == j {
        // A deadline can only "pass" once the call has started its timer, which is certain after
        // the first deadline check. Callbacks before it (e.g. the start-state validity query made
        // before the timer is taken) are outside the timed region: no jump there.
        if oxmpl::verif::clock_reads() > LAND_READS_BASE.with(|b| b.get()) {
            oxmpl::verif::clock_advance(JUMP_NS);
            LANDED.with(|l| l.set(Some((j, kind as u8))));
        } else {
            LAND_SKIPPED.with(|l| l.set(true));
        }
    }
    // hard cap on callbacks per rig lifetime: a loop that never ends but keeps calling back is
    // turned into an attributable unwinding instead of a hang (and of unbounded log growth)
    if j > CB_CAP.load(std::sync::atomic::Ordering::Relaxed) {
        std::panic::panic_any(WorkCapHit(j));
    }
    if kind == Cb::Valid {
        let n = VALID_CNT.with(|c| {
            let v = c.get() + 1;
            c.set(v);
            v
        });
        if n > VALID_CAP.with(|c| c.get()) {
            std::panic::panic_any(WorkCapHit(n));
        }
    }
    j
}

// ------------------------------------------------------------------------------------------
// Scripted uniform sampler

#[derive(Clone, Copy, PartialEq, Eq, Debug)]
pub enum SampleMode {
    /// answer from `script` (indices into `alphabet`)
    Script,
    /// call the real sampler with the planner's RNG, log the result
    PassThrough,
}

pub struct Scripted<K: Kit> {
    pub inner: K::SP,
    pub alphabet: Vec<K::S>,
    pub mode: Cell<SampleMode>,
    pub script: RefCell<Vec<u8>>,
    pub pos: Cell<usize>,
    /// fail (return Err) at the k-th call (0-based) if set
    pub fail_at: Cell<Option<(usize, u8)>>,
    /// fail at EVERY call from the k-th on
    pub fail_from: Cell<Option<(usize, u8)>>,
    pub calls: Cell<usize>,
    pub log_on: Cell<bool>,
    pub log: RefCell<Vec<(u64, K::S)>>,
    /// index (into the calls) of every sample call's seq, for ordering against other callbacks
    pub call_seqs: RefCell<Vec<u64>>,
    /// what happens when the script runs out: false = unwind with `ScriptExhausted`; true = expire
    /// the logical deadline and keep answering with the last scripted letter (a planner that draws
    /// more samples per deadline check than the script assumed then still ends its call, and its
    /// behaviour is judged from the sample log)
    pub expire_when_exhausted: Cell<bool>,
    /// samples served after the script had run out
    pub overdrawn: Cell<usize>,
}

impl<K: Kit> Scripted<K> {
    pub fn new(inner: K::SP, alphabet: Vec<K::S>) -> Self {
        Scripted {
            inner,
            alphabet,
            mode: Cell::new(SampleMode::Script),
            script: RefCell::new(Vec::new()),
            pos: Cell::new(0),
            fail_at: Cell::new(None),
            fail_from: Cell::new(None),
            calls: Cell::new(0),
            log_on: Cell::new(false),
            log: RefCell::new(Vec::new()),
            call_seqs: RefCell::new(Vec::new()),
            expire_when_exhausted: Cell::new(false),
            overdrawn: Cell::new(0),
        }
    }
    pub fn push_script(&self, s: &[u8]) {
        self.script.borrow_mut().extend_from_slice(s);
    }
    pub fn remaining(&self) -> usize {
        self.script.borrow().len() - self.pos.get()
    }
}

impl<K: Kit> StateSpace for Scripted<K> {
    type StateType = K::S;
    fn distance(&self, a: &K::S, b: &K::S) -> f64 {
        self.inner.distance(a, b)
    }
    fn interpolate(&self, from: &K::S, to: &K::S, t: f64, out: &mut K::S) {
        self.inner.interpolate(from, to, t, out)
    }
    fn enforce_bounds(&self, s: &mut K::S) {
        self.inner.enforce_bounds(s)
    }
    fn satisfies_bounds(&self, s: &K::S) -> bool {
        self.inner.satisfies_bounds(s)
    }
    fn sample_uniform(&self, rng: &mut impl Rng) -> Result<K::S, StateSamplingError> {
        let seq = on_cb(Cb::Sample);
        let k = self.calls.get();
        self.calls.set(k + 1);
        self.call_seqs.borrow_mut().push(seq);
        let failing = self.fail_at.get().filter(|(at, _)| *at == k).or(self.fail_from.get().filter(|(from, _)| k >= *from));
        if let Some((_, kind)) = failing {
            {
                return Err(if kind == 0 {
                    StateSamplingError::UnboundedDimension { dimension_index: 0 }
                } else {
                    StateSamplingError::ZeroVolume
                });
            }
        }
        let s = match self.mode.get() {
            SampleMode::Script => {
                let p = self.pos.get();
                let sc = self.script.borrow();
                if p >= sc.len() {
                    if !self.expire_when_exhausted.get() {
                        drop(sc);
                        std::panic::panic_any(ScriptExhausted("uniform"));
                    }
                    // far past any deadline the harness ever sets
                    oxmpl::verif::clock_advance(1u64 << 60);
                    self.overdrawn.set(self.overdrawn.get() + 1);
                    let l = sc.last().copied().unwrap_or(0);
                    self.alphabet[l as usize].clone()
                } else {
                    self.pos.set(p + 1);
                    self.alphabet[sc[p] as usize].clone()
                }
            }
            SampleMode::PassThrough => self.inner.sample_uniform(rng)?,
        };
        if self.log_on.get() {
            self.log.borrow_mut().push((seq, s.clone()));
        }
        Ok(s)
    }
    fn get_longest_valid_segment_length(&self) -> f64 {
        self.inner.get_longest_valid_segment_length()
    }
}

// ------------------------------------------------------------------------------------------
// Goal

#[derive(Clone, Copy, PartialEq, Eq, Debug)]
pub enum GoalMode {
    /// answer from `script` (indices into `samples`); when exhausted cycle through `samples`
    Script,
    /// pick samples[rng.random_range(0..n)] (consumes RNG words)
    Rng,
    /// samples[call index mod n], consumes no RNG words
    Cycle,
}

pub struct HGoal<K: Kit> {
    /// region = union of closed balls (centre, radius) in the metric `dist`
    pub balls: Vec<(K::S, f64)>,
    pub dist: Arc<dyn Fn(&K::S, &K::S) -> f64>,
    pub samples: Vec<K::S>,
    pub mode: Cell<GoalMode>,
    pub script: RefCell<Vec<u8>>,
    pub pos: Cell<usize>,
    pub calls: Cell<usize>,
    pub fail_at: Cell<Option<(usize, u8)>>,
    /// fail at EVERY call from the k-th on
    pub fail_from: Cell<Option<(usize, u8)>>,
    pub pred_calls: Cell<usize>,
    pub log_on: Cell<bool>,
    pub sample_log: RefCell<Vec<(u64, K::S)>>,
    pub pred_log: RefCell<Vec<(u64, K::S, bool)>>,
    /// Script mode only: unwind with `ScriptExhausted` when the script runs out instead of cycling
    /// through the samples (deadline-landing runs need every call to end)
    pub strict_script: Cell<bool>,
    /// `distance_goal` is 0 on the region AND on a margin of this width around it: the trait promises
    /// "inside the region => distance 0", not the converse (a goal whose predicate also looks at a
    /// heading while its distance is positional). Satisfaction is decided by the predicate alone.
    pub distance_margin: Cell<f64>,
}

impl<K: Kit> HGoal<K> {
    pub fn new(balls: Vec<(K::S, f64)>, samples: Vec<K::S>, dist: Arc<dyn Fn(&K::S, &K::S) -> f64>) -> Self {
        HGoal {
            balls,
            dist,
            samples,
            mode: Cell::new(GoalMode::Cycle),
            script: RefCell::new(Vec::new()),
            pos: Cell::new(0),
            calls: Cell::new(0),
            fail_at: Cell::new(None),
            fail_from: Cell::new(None),
            pred_calls: Cell::new(0),
            log_on: Cell::new(false),
            sample_log: RefCell::new(Vec::new()),
            pred_log: RefCell::new(Vec::new()),
            strict_script: Cell::new(false),
            distance_margin: Cell::new(0.4),
        }
    }
    /// Pure predicate (no logging, no counters).
    pub fn contains(&self, s: &K::S) -> bool {
        self.balls.iter().any(|(c, r)| (self.dist)(c, s) <= *r)
    }
}

impl<K: Kit> Goal<K::S> for HGoal<K> {
    fn is_satisfied(&self, s: &K::S) -> bool {
        let seq = on_cb(Cb::GoalPred);
        self.pred_calls.set(self.pred_calls.get() + 1);
        let ans = self.contains(s);
        if self.log_on.get() {
            self.pred_log.borrow_mut().push((seq, s.clone(), ans));
        }
        ans
    }
}
impl<K: Kit> GoalRegion<K::S> for HGoal<K> {
    fn distance_goal(&self, s: &K::S) -> f64 {
        self.balls
            .iter()
            .map(|(c, r)| ((self.dist)(c, s) - r - self.distance_margin.get()).max(0.0))
            .fold(f64::INFINITY, f64::min)
    }
}
impl<K: Kit> GoalSampleableRegion<K::S> for HGoal<K> {
    fn sample_goal(&self, rng: &mut impl Rng) -> Result<K::S, StateSamplingError> {
        let seq = on_cb(Cb::GoalSample);
        let k = self.calls.get();
        self.calls.set(k + 1);
        let failing = self.fail_at.get().filter(|(at, _)| *at == k).or(self.fail_from.get().filter(|(from, _)| k >= *from));
        if let Some((_, kind)) = failing {
            {
                return Err(if kind == 0 {
                    StateSamplingError::GoalRegionUnsatisfiable
                } else {
                    StateSamplingError::GoalSamplingTimeout { attempts: 7 }
                });
            }
        }
        let n = self.samples.len();
        let s = match self.mode.get() {
            GoalMode::Script => {
                let p = self.pos.get();
                let sc = self.script.borrow();
                if p < sc.len() {
                    self.pos.set(p + 1);
                    self.samples[sc[p] as usize].clone()
                } else if self.strict_script.get() {
                    drop(sc);
                    std::panic::panic_any(ScriptExhausted("goal"));
                } else {
                    self.samples[k % n].clone()
                }
            }
            GoalMode::Rng => self.samples[rng.random_range(0..n)].clone(),
            GoalMode::Cycle => self.samples[k % n].clone(),
        };
        if self.log_on.get() {
            self.sample_log.borrow_mut().push((seq, s.clone()));
        }
        Ok(s)
    }
}

// ------------------------------------------------------------------------------------------
// World (validity checker)

pub enum Obst<K: Kit> {
    /// closed metric ball
    Ball(K::S, f64),
    /// arbitrary pure predicate: true = inside obstacle
    Pred(Arc<dyn Fn(&K::S) -> bool>, String),
}

pub struct World<K: Kit> {
    pub name: String,
    pub obst: Vec<Obst<K>>,
    pub dist: Arc<dyn Fn(&K::S, &K::S) -> f64>,
    pub log_on: Cell<bool>,
    pub log: RefCell<Vec<(u64, K::S, bool)>>,
    pub calls: Cell<u64>,
}

impl<K: Kit> World<K> {
    pub fn new(name: &str, obst: Vec<Obst<K>>, dist: Arc<dyn Fn(&K::S, &K::S) -> f64>) -> Self {
        World {
            name: name.to_string(),
            obst,
            dist,
            log_on: Cell::new(false),
            log: RefCell::new(Vec::new()),
            calls: Cell::new(0),
        }
    }
    /// Ground truth, pure.
    pub fn free(&self, s: &K::S) -> bool {
        !self.obst.iter().any(|o| match o {
            Obst::Ball(c, r) => (self.dist)(c, s) <= *r,
            Obst::Pred(f, _) => f(s),
        })
    }
    /// index of the first obstacle containing s
    pub fn hit(&self, s: &K::S) -> Option<usize> {
        self.obst.iter().position(|o| match o {
            Obst::Ball(c, r) => (self.dist)(c, s) <= *r,
            Obst::Pred(f, _) => f(s),
        })
    }
    pub fn describe(&self) -> serde_json::Value {
        serde_json::json!({
            "name": self.name,
            "obstacles": self.obst.iter().map(|o| match o {
                Obst::Ball(c, r) => serde_json::json!({"ball": K::to_v(c).json(), "r": r}),
                Obst::Pred(_, d) => serde_json::json!({"pred": d}),
            }).collect::<Vec<_>>()
        })
    }
}

impl<K: Kit> StateValidityChecker<K::S> for World<K> {
    fn is_valid(&self, s: &K::S) -> bool {
        let seq = on_cb(Cb::Valid);
        self.calls.set(self.calls.get() + 1);
        let ans = self.free(s);
        if self.log_on.get() {
            self.log.borrow_mut().push((seq, s.clone(), ans));
        }
        ans
    }
}

pub fn vjson<K: Kit>(s: &K::S) -> serde_json::Value {
    K::to_v(s).json()
}
#[allow(dead_code)]
pub fn v_of<K: Kit>(s: &K::S) -> V {
    K::to_v(s)
}

//! Deep seeded executions: a supplementary exploration mode for the path properties (C01, C03, C04,
//! C05) and the tree invariants (C15). The bounded-depth enumerations over the alphabet reach every
//! tree of up to 4-5 nodes; configurations that need a long dog-leg branch, a dense neighbourhood or
//! a long run of rejected samples do not exist there. Here the real samplers and the real seeded
//! generator drive the real planner for hundreds of iterations, for EVERY seed of a lattice x every
//! scenario of the property's own lattice (whole executions, no merging), the solve budget cut into
//! chunks so that the tree is inspected between calls. The same oracles judge the results. This is
//! an enumerated-seed exploration (deterministic, replayable by seed), labelled as such in the
//! evidence; it never replaces the exhaustive part.

use crate::bfs::Step;
use crate::drv::{iters, iters_secs, Pk};
use crate::explore::{guarded, Caught, LONG};
use crate::kit::Kit;
use crate::report::Report;
use crate::scen::{Rig, Scenario};
use crate::seams::GoalMode;
use crate::with_kit;
use rayon::prelude::*;
use serde_json::{json, Value};
use std::cell::RefCell;

thread_local! {
    static CURRENT: RefCell<Option<Value>> = const { RefCell::new(None) };
}
/// The deep run the calling thread is executing (the replay writers embed it).
pub fn current() -> Option<Value> {
    CURRENT.with(|c| c.borrow().clone())
}
/// Other non-BFS modes (deadline landings) describe themselves to the replay writers the same way.
pub fn set_current(v: Option<Value>) {
    CURRENT.with(|c| *c.borrow_mut() = v);
}

pub struct DeepCfg {
    pub seeds: u64,
    pub chunks: usize,
    pub chunk_len: usize,
    pub bias: f64,
}
pub fn cfg(tier: &str) -> DeepCfg {
    if tier == "quick" {
        DeepCfg { seeds: 6, chunks: 4, chunk_len: 30, bias: 0.1 }
    } else {
        DeepCfg { seeds: 24, chunks: 8, chunk_len: 50, bias: 0.1 }
    }
}

/// Scenario roots: the property's own lattice, thinned (every scenario with a resolution setting that
/// makes one motion check cost thousands of queries is left to the scripted exploration).
pub fn roots(prop: &str, tier: &str) -> Vec<Scenario> {
    let all: Vec<Scenario> = match prop {
        "C15" => crate::props_tree::scenarios("C15", tier),
        _ => crate::props_paths::scenarios(prop, tier),
    };
    let mut out: Vec<Scenario> = all.into_iter().filter(|s| !s.tag.contains("/fine") && !s.tag.contains("fSome(0.01)") && s.params.bias < 1.0).collect();
    // goal roots are drawn by the goal sampler here, so the two RRT-Connect root variants coincide
    out.retain(|s| s.goal_root == 0);
    {
        // one step size per (space, world, planner, radius ratio): the largest radius for PRM (a roadmap
        // with a tiny radius answers nothing), the smallest step for the trees. (Both tiers: the thorough
        // tier has more worlds and four times the seeds, not every step size again.)
        out.sort_by(|a, b| {
            let pref = |s: &Scenario| if s.params.pk == Pk::Prm { -s.params.step } else { s.params.step };
            pref(a).partial_cmp(&pref(b)).unwrap_or(std::cmp::Ordering::Equal)
        });
        let mut seen = std::collections::HashSet::new();
        out.retain(|s| seen.insert((s.kit, s.world.name.clone(), s.params.pk, (s.params.radius / s.params.step * 100.0) as i64, format!("{:?}", s.spec))));
    }
    out
}

fn one_run<K: Kit>(prop: &'static str, tier: &'static str, idx: usize, sc0: &Scenario, seed: u64, raw: bool, c: &DeepCfg, rep: &mut Report) {
    let mut sc = sc0.clone();
    sc.params.seed = Some(seed);
    sc.params.bias = c.bias;
    // worlds whose point is a long run of rejected goal roots get fewer, longer calls
    let long = sc.tag.contains("marginally-inside");
    let c = &DeepCfg { seeds: c.seeds, chunks: if long { 2 } else { c.chunks }, chunk_len: if long { 160 } else { c.chunk_len }, bias: c.bias };
    let info = json!({"scenario_index": idx, "seed": seed, "goal_bias": c.bias, "chunks": c.chunks, "chunk_len": c.chunk_len, "raw_space": raw});
    CURRENT.with(|x| *x.borrow_mut() = Some(info.clone()));
    crate::explore::watch_desc(|| json!({"deep": info, "scenario": sc.tag}).to_string());
    rep.count("deep_runs", 1);
    if raw {
        rep.count("deep_runs_on_the_real_space_type", 1);
    }
    // raw: the planner is instantiated over the real space type (no sampler seam); the rig only lends
    // its world, goal and start to the planner and serves the oracles as context
    let built = guarded(|| {
        let rig = Rig::<K>::new(&sc, !raw);
        // (setup first, as in the wrapped flow: RRT-Connect's goal root comes from the scenario's script)
        let rawdrv = if raw {
            let mut d = crate::drv::RawDrv::<K>::new(&sc.params);
            let mut start_states = vec![rig.start.clone()];
            start_states.extend(sc.extra_starts.iter().map(K::from_v));
            let pd = std::sync::Arc::new(crate::drv::RawPd::<K> { space: std::sync::Arc::new(K::build(&sc.spec)), start_states, goal: rig.goal.clone() });
            d.setup(pd, rig.world.clone());
            Some(d)
        } else {
            None
        };
        rig.pass_through();
        rig.logging(true);
        rig.goal_mode(GoalMode::Rng);
        (rig, rawdrv)
    });
    let (mut rig, mut rawdrv) = match built {
        Ok(r) => r,
        Err(_) => {
            rep.engine_error(format!("could not build deep rig for {}", sc.tag));
            return;
        }
    };
    let pk = sc.params.pk;
    let start_ok = rig.world.free(&rig.start);
    let mut pre = match &rawdrv {
        Some(d) => d.snapshot(),
        None => rig.snapshot(),
    };
    for ci in 0..c.chunks {
        let log_mark = rig.world.log.borrow().len();
        let cb_before = crate::seams::cb_counts();
        let res = guarded(|| {
            oxmpl::verif::clock_reset(1_000_000);
            let build = iters_secs((c.chunk_len * c.chunks).min(160)); // all-pairs linking at a huge radius: keep the callback count under the per-rig cap
            match rawdrv.as_mut() {
                Some(d) => {
                    if pk == Pk::Prm {
                        if ci == 0 {
                            d.set_prm_timeout(build);
                            let _ = d.construct_roadmap();
                        }
                        d.solve(LONG)
                    } else {
                        d.solve(iters(c.chunk_len))
                    }
                }
                None => {
                    if pk == Pk::Prm {
                        if ci == 0 {
                            rig.drv.set_prm_timeout(build);
                            let _ = rig.drv.construct_roadmap();
                        }
                        rig.drv.solve(LONG)
                    } else {
                        rig.drv.solve(iters(c.chunk_len))
                    }
                }
            }
        });
        let result = match res {
            Ok(r) => r,
            Err(Caught::Panic(msg)) => {
                let loc = msg.rsplit(" @ ").next().unwrap_or("").to_string();
                rep.violate(format!("{prop}|{}|{}|panic:{loc}", pk.name(), sc.kit), format!("planner call unwound in a deep seeded run: {msg}"), || json!({"kind": "deep", "prop": prop, "tier": tier, "deep": info, "scenario": sc.json(), "panic": msg}));
                break;
            }
            Err(Caught::Harness(m)) => {
                rep.engine_error(format!("harness panic in deep run {}: {m}", sc.tag));
                break;
            }
            Err(_) => {
                rep.engine_error(format!("work cap / script exhaustion in deep run {}", sc.tag));
                break;
            }
        };
        rep.count("deep_iterations", c.chunk_len as u64);
        rep.count("traces_validated", 1);
        let post = match &rawdrv {
            Some(d) => d.snapshot(),
            None => rig.snapshot(),
        };
        let before = rep.viol_counts.values().sum::<u64>();
        if prop == "C15" {
            let cb_after = crate::seams::cb_counts();
            let st = Step { sc: &sc, hist: &[], letter: 0, pre: &pre, post: &post, result: &result, rig: &rig, log_mark, cb_before, cb_after, used: c.chunk_len, batch: true, sample: None };
            crate::props_tree::c15::<K>(tier, idx, &st, rep);
            rep.max("max_deep_tree_nodes", post.node_count() as u64);
            if post.node_count() > 2000 && std::env::var("MC_DEBUG").is_ok() {
                eprintln!("DEBUG big tree: {} seed {seed} chunk {ci} nodes {} result {:?} clock_reads {}", sc.tag, post.node_count(), result.as_ref().map(|p| p.len()), oxmpl::verif::clock_reads());
            }
        } else if let Ok(path) = &result {
            rep.count("deep_paths", 1);
            rep.count("paths_returned", 1);
            rep.max("max_deep_path_len", path.len() as u64);
            match prop {
                "C01" => crate::props_paths::c01::<K>(tier, idx, &sc, &[], ci, &rig, path, start_ok, rep),
                "C03" => crate::props_paths::c03::<K>(tier, idx, &sc, &[], ci, &rig, path, rep),
                "C04" => crate::props_paths::c04::<K>(tier, idx, &sc, &[], ci, &rig, path, rep),
                "C05" => crate::props_paths::c05::<K>(tier, idx, &sc, &[], ci, &rig, path, rep),
                _ => {}
            }
        }
        // C04 x PRM: milestones come straight from the sampler. Any milestone can end a returned path
        // (ask for it): every milestone outside the bounds model is made the goal of a replaced problem
        // and the returned path is judged like any other.
        if prop == "C04" && pk == Pk::Prm && !raw {
            if let crate::drv::Snap::Roadmap(g) = &post {
                let outside: Vec<K::S> = g.iter().map(|(m, _)| m.clone()).filter(|m| !crate::oracles::in_bounds_ref(&rig, m)).take(3).collect();
                rep.count("deep_prm_milestones_inspected", g.len() as u64);
                for m in outside {
                    let dist = crate::scen::dist_fn::<K>(&sc.spec);
                    let goal = std::sync::Arc::new(crate::seams::HGoal::<K>::new(vec![(m.clone(), 1e-9)], vec![rig.start.clone()], dist));
                    let pd = std::sync::Arc::new(crate::drv::Pd::<K> { space: rig.space.clone(), start_states: vec![rig.start.clone()], goal });
                    rig.drv.set_problem_definition(pd);
                    if let Ok(Ok(path)) = guarded(|| rig.drv.solve(LONG)) {
                        rep.count("deep_paths", 1);
                        crate::props_paths::c04::<K>(tier, idx, &sc, &[], ci + 1, &rig, &path, rep);
                    }
                }
            }
        }
        if rep.viol_counts.values().sum::<u64>() > before {
            break; // a malformed tree (e.g. a parent cycle) must not be driven further
        }
        if pk == Pk::Prm {
            break; // one roadmap, one query
        }
        pre = post;
    }
    CURRENT.with(|x| *x.borrow_mut() = None);
}

/// Deep TRANSITIONS (C16, C17): the same seeded drive, but one iteration per `solve` call, and every
/// single iteration is judged by the reference model of one iteration against the snapshots before and
/// after it - on trees of a hundred nodes and more, where a neighbour cap, a far-rim parent or a long
/// dog-leg can exist. The sample of the iteration is read from the sampler seam's log.
fn one_transition_run<K: Kit>(prop: &'static str, tier: &'static str, idx: usize, sc0: &Scenario, seed: u64, iterations: usize, rep: &mut Report) {
    let mut sc = sc0.clone();
    sc.params.seed = Some(seed);
    sc.params.bias = 0.1;
    let info = json!({"mode": "deep-transitions", "scenario_index": idx, "seed": seed, "iterations": iterations});
    CURRENT.with(|x| *x.borrow_mut() = Some(info.clone()));
    crate::explore::watch_desc(|| json!({"deep": info, "scenario": sc.tag}).to_string());
    rep.count("deep_transition_runs", 1);
    let built = guarded(|| {
        let rig = Rig::<K>::new(&sc, true);
        rig.pass_through();
        rig.logging(true);
        rig.goal_mode(GoalMode::Rng);
        rig
    });
    let Ok(mut rig) = built else {
        rep.engine_error(format!("could not build deep rig for {}", sc.tag));
        CURRENT.with(|x| *x.borrow_mut() = None);
        return;
    };
    let mut pre = rig.snapshot();
    for _ in 0..iterations {
        let log_mark = rig.world.log.borrow().len();
        let (n_uni, n_goal) = (rig.space.log.borrow().len(), rig.goal.sample_log.borrow().len());
        let cb_before = crate::seams::cb_counts();
        let res = guarded(|| {
            oxmpl::verif::clock_reset(1_000_000);
            rig.drv.solve(iters(1))
        });
        let Ok(result) = res else { break };
        let cb_after = crate::seams::cb_counts();
        let post = rig.snapshot();
        // the one sample this iteration drew
        let q: Option<K::S> = {
            let u = rig.space.log.borrow();
            let g = rig.goal.sample_log.borrow();
            match (u.len() - n_uni, g.len() - n_goal) {
                (1, 0) => Some(u.last().unwrap().1.clone()),
                (0, 1) => Some(g.last().unwrap().1.clone()),
                _ => None,
            }
        };
        let Some(q) = q else {
            rep.count("deep_transitions_without_exactly_one_sample", 1);
            pre = post;
            continue;
        };
        rep.count("deep_transitions", 1);
        let before = rep.viol_counts.values().sum::<u64>();
        let st = Step { sc: &sc, hist: &[], letter: 0, pre: &pre, post: &post, result: &result, rig: &rig, log_mark, cb_before, cb_after, used: 1, batch: false, sample: Some(&q) };
        match prop {
            "C16" => crate::props_tree::c16::<K>(tier, idx, &st, rep),
            "C17" => crate::props_tree::c17::<K>(tier, idx, &st, rep),
            _ => {}
        }
        rep.max("max_deep_transition_tree_nodes", post.node_count() as u64);
        if rep.viol_counts.values().sum::<u64>() > before {
            break;
        }
        pre = post;
    }
    CURRENT.with(|x| *x.borrow_mut() = None);
}

fn transitions_kit<K: Kit>(prop: &'static str, tier: &'static str, jobs: &[(usize, Scenario, u64)], iterations: usize) -> Report {
    jobs.par_iter()
        .map(|(idx, sc, seed)| {
            let mut rep = Report::new();
            one_transition_run::<K>(prop, tier, *idx, sc, *seed, iterations, &mut rep);
            rep
        })
        .reduce(Report::new, |mut a, b| {
            a.merge(b);
            a
        })
}

/// Scenario roots of the deep-transition mode: the property's BFS lattice, thinned.
pub fn transition_roots(prop: &str, tier: &str) -> Vec<Scenario> {
    let mut out: Vec<Scenario> = crate::props_tree::scenarios(prop, tier).into_iter().filter(|s| s.params.bias < 1.0 && s.goal_root == 0).collect();
    {
        // (both tiers: one step size per (space, world, planner, radius ratio); the quick tier also leaves
        // out the most cluttered world)
        let mut seen = std::collections::HashSet::new();
        out.retain(|s| (tier != "quick" || s.world.name != "subset1111") && seen.insert((s.kit, s.world.name.clone(), s.params.pk, (s.params.radius / s.params.step * 100.0) as i64)));
    }
    out
}

pub fn run_transitions(prop: &'static str, tier: &'static str) -> Report {
    let (seeds, iterations) = if tier == "quick" { (3u64, 80usize) } else { (8, 150) };
    let rs = transition_roots(prop, tier);
    let mut rep = Report::new();
    rep.count("deep_transition_scenarios", rs.len() as u64);
    for kit in crate::catalog::KITS {
        let jobs: Vec<(usize, Scenario, u64)> = rs.iter().enumerate().filter(|(_, s)| s.kit == kit).flat_map(|(i, s)| (0..seeds).map(move |seed| (i, s.clone(), seed))).collect();
        if jobs.is_empty() {
            continue;
        }
        let r = with_kit!(kit, transitions_kit(prop, tier, &jobs, iterations));
        rep.merge(r);
    }
    rep
}

fn run_kit<K: Kit>(prop: &'static str, tier: &'static str, jobs: &[(usize, Scenario, u64, bool)], c: &DeepCfg) -> Report {
    jobs.par_iter()
        .map(|(idx, sc, seed, raw)| {
            let mut rep = Report::new();
            one_run::<K>(prop, tier, *idx, sc, *seed, *raw, c, &mut rep);
            rep
        })
        .reduce(Report::new, |mut a, b| {
            a.merge(b);
            a
        })
}

/// All deep runs of a property; the caller merges the report into its own.
pub fn run(prop: &'static str, tier: &'static str) -> Report {
    let c = cfg(tier);
    let rs = roots(prop, tier);
    let mut rep = Report::new();
    rep.count("deep_scenarios", rs.len() as u64);
    for kit in crate::catalog::KITS {
        // every seed through the sampler seam, every other seed also on the real space type
        let jobs: Vec<(usize, Scenario, u64, bool)> = rs.iter().enumerate().filter(|(_, s)| s.kit == kit).flat_map(|(i, s)| (0..c.seeds).flat_map(move |seed| if seed % 2 == 0 { vec![(i, s.clone(), seed, false), (i, s.clone(), seed, true)] } else { vec![(i, s.clone(), seed, false)] })).collect();
        if jobs.is_empty() {
            continue;
        }
        let r = with_kit!(kit, run_kit(prop, tier, &jobs, &c));
        rep.merge(r);
    }
    rep
}

pub fn replay_file(v: &Value) -> i32 {
    let prop: &'static str = Box::leak(v["prop"].as_str().unwrap_or("").to_string().into_boxed_str());
    let tier: &'static str = Box::leak(v["tier"].as_str().unwrap_or("quick").to_string().into_boxed_str());
    let d = &v["deep"];
    if d["mode"] == "dense-roadmap" {
        return 3; // replayed by re-running the check (see ./check replay)
    }
    if d["mode"] == "deadline-landing" {
        return crate::props_tree::replay_landing(tier, d);
    }
    if d["mode"] == "deep-transitions" {
        let idx = d["scenario_index"].as_u64().unwrap_or(0) as usize;
        let seed = d["seed"].as_u64().unwrap_or(0);
        let n = d["iterations"].as_u64().unwrap_or(80) as usize;
        let rs = transition_roots(prop, tier);
        let Some(sc) = rs.get(idx) else {
            crate::report::out("ENGINE-ERROR: replay refers to a scenario outside the lattice");
            return 2;
        };
        let run = || {
            let mut rep = Report::new();
            with_kit!(sc.kit, one_transition_run(prop, tier, idx, sc, seed, n, &mut rep));
            rep
        };
        let (r1, r2) = (run(), run());
        if r1.viol_counts.keys().collect::<Vec<_>>() != r2.viol_counts.keys().collect::<Vec<_>>() {
            crate::report::out("ENGINE-ERROR: replay is not deterministic");
            return 2;
        }
        if r1.viol_counts.is_empty() {
            crate::report::out(&format!("replay: property {prop} holds on this seeded execution"));
            return 0;
        }
        for v in &r1.violations {
            crate::report::out(&format!("replay: {} -- {}", v.key, v.what));
        }
        crate::report::out(&format!("VIOLATION property={prop} replay=(replayed)"));
        return 1;
    }
    let idx = d["scenario_index"].as_u64().unwrap_or(0) as usize;
    let seed = d["seed"].as_u64().unwrap_or(0);
    let c = DeepCfg { seeds: 1, chunks: d["chunks"].as_u64().unwrap_or(4) as usize, chunk_len: d["chunk_len"].as_u64().unwrap_or(30) as usize, bias: d["goal_bias"].as_f64().unwrap_or(0.1) };
    let rs = roots(prop, tier);
    let Some(sc) = rs.get(idx) else {
        crate::report::out("ENGINE-ERROR: replay refers to a scenario outside the lattice");
        return 2;
    };
    let raw = d["raw_space"].as_bool().unwrap_or(false);
    let run = || {
        let mut rep = Report::new();
        with_kit!(sc.kit, one_run(prop, tier, idx, sc, seed, raw, &c, &mut rep));
        rep
    };
    let (r1, r2) = (run(), run());
    let k1: Vec<_> = r1.viol_counts.keys().cloned().collect();
    let k2: Vec<_> = r2.viol_counts.keys().cloned().collect();
    if k1 != k2 || r1.counters != r2.counters {
        crate::report::out("ENGINE-ERROR: replay is not deterministic");
        return 2;
    }
    if r1.viol_counts.is_empty() {
        crate::report::out(&format!("replay: property {prop} holds on this seeded execution"));
        0
    } else {
        for v in &r1.violations {
            crate::report::out(&format!("replay: {} -- {}", v.key, v.what));
        }
        crate::report::out(&format!("VIOLATION property={prop} replay=(replayed)"));
        1
    }
}

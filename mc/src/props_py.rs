//! C19 / C20: the Python binding. `mc check C19|C20` generates the scenario lattice (and, for C19,
//! the Rust core's own results with bit-identical callbacks), runs /verif/py/driver.py against the
//! extension built from /repo with the logical clock, and turns the driver's report into evidence.

use crate::kit::{Cmp, Kit, Rv, Se2, Se3, So2, So3, Spec, V};
use crate::report::{finish, h128, out, CheckMeta, Report};
use oxmpl::base::error::{PlanningError, StateSamplingError};
use oxmpl::base::goal::{Goal, GoalRegion, GoalSampleableRegion};
use oxmpl::base::planner::{Planner, PlannerConfig};
use oxmpl::base::problem_definition::ProblemDefinition;
use oxmpl::base::space::{RealVectorStateSpace, SE2StateSpace, SE3StateSpace, SO2StateSpace, SO3StateSpace, StateSpace};
use oxmpl::base::state::{SE2State, SO2State, SO3State};
use oxmpl::base::validity::StateValidityChecker;
use oxmpl::geometric::{RRTConnect, RRTStar, PRM, RRT};
use rand::Rng;
use serde_json::{json, Value};
use std::cell::Cell;
use std::f64::consts::PI;
use std::sync::Arc;
use std::time::{Duration, Instant};

// ----------------------------------------------------------------------------------------------
// predicates with IEEE-exact, order-fixed arithmetic (mirrored verbatim in py/driver.py)

#[derive(Clone, Debug)]
pub enum Pred {
    /// sum_i (x[idx_i] - c_i)^2 <= r2
    SqDistLe { idx: Vec<usize>, c: Vec<f64>, r2: f64 },
    /// |sum_i x[idx_i] * q_i| >= c
    AbsDotGe { idx: Vec<usize>, q: Vec<f64>, c: f64 },
    /// lo <= x[i] <= hi
    Range { i: usize, lo: f64, hi: f64 },
}

impl Pred {
    pub fn eval(&self, x: &[f64]) -> bool {
        match self {
            Pred::SqDistLe { idx, c, r2 } => {
                let mut s = 0.0f64;
                for (k, i) in idx.iter().enumerate() {
                    let d = x[*i] - c[k];
                    s = s + d * d;
                }
                s <= *r2
            }
            Pred::AbsDotGe { idx, q, c } => {
                let mut s = 0.0f64;
                for (k, i) in idx.iter().enumerate() {
                    s = s + x[*i] * q[k];
                }
                s.abs() >= *c
            }
            Pred::Range { i, lo, hi } => x[*i] >= *lo && x[*i] <= *hi,
        }
    }
    pub fn json(&self) -> Value {
        match self {
            Pred::SqDistLe { idx, c, r2 } => json!({"k": "sq", "idx": idx, "c": c, "r2": r2}),
            Pred::AbsDotGe { idx, q, c } => json!({"k": "dot", "idx": idx, "q": q, "c": c}),
            Pred::Range { i, lo, hi } => json!({"k": "range", "i": i, "lo": lo, "hi": hi}),
        }
    }
}

pub fn flatten(v: &V, out: &mut Vec<f64>) {
    match v {
        V::Rv(x) => out.extend(x),
        V::So2(a) => out.push(*a),
        V::So3(q) => out.extend(q),
        V::Cmp(c) => c.iter().for_each(|x| flatten(x, out)),
    }
}

fn fnv_f64(h: &mut u64, x: f64) {
    for b in x.to_le_bytes() {
        *h ^= b as u64;
        *h = h.wrapping_mul(0x100000001b3);
    }
}

pub struct MirrorWorld<K: Kit> {
    pub obstacles: Vec<Pred>,
    /// shared between the checkers of one history (the trace is cumulative)
    pub calls: std::rc::Rc<Cell<u64>>,
    pub hash: std::rc::Rc<Cell<u64>>,
    /// the first states the checker was asked about (flattened), for the knife-edge scenarios
    pub seen: std::rc::Rc<std::cell::RefCell<Vec<Vec<f64>>>>,
    _k: std::marker::PhantomData<K>,
}
impl<K: Kit> StateValidityChecker<K::S> for MirrorWorld<K> {
    fn is_valid(&self, s: &K::S) -> bool {
        let mut x = Vec::with_capacity(8);
        flatten(&K::to_v(s), &mut x);
        self.calls.set(self.calls.get() + 1);
        if self.seen.borrow().len() < 400 {
            self.seen.borrow_mut().push(x.clone());
        }
        let mut h = self.hash.get();
        for c in &x {
            fnv_f64(&mut h, *c);
        }
        self.hash.set(h);
        !self.obstacles.iter().any(|p| p.eval(&x))
    }
}

pub struct MirrorGoal<K: Kit> {
    pub preds: Vec<Pred>,
    pub samples: Vec<K::S>,
    pub sample_calls: Cell<usize>,
    pub pred_calls: Cell<u64>,
}
impl<K: Kit> Goal<K::S> for MirrorGoal<K> {
    fn is_satisfied(&self, s: &K::S) -> bool {
        self.pred_calls.set(self.pred_calls.get() + 1);
        let mut x = Vec::with_capacity(8);
        flatten(&K::to_v(s), &mut x);
        self.preds.iter().all(|p| p.eval(&x))
    }
}
impl<K: Kit> GoalRegion<K::S> for MirrorGoal<K> {
    fn distance_goal(&self, _s: &K::S) -> f64 {
        0.0
    }
}
impl<K: Kit> GoalSampleableRegion<K::S> for MirrorGoal<K> {
    fn sample_goal(&self, _rng: &mut impl Rng) -> Result<K::S, StateSamplingError> {
        let k = self.sample_calls.get();
        self.sample_calls.set(k + 1);
        Ok(self.samples[k % self.samples.len()].clone())
    }
}

#[derive(Clone, Debug)]
pub struct PyScenario {
    pub id: String,
    pub kit: &'static str,
    pub spec: Spec,
    pub frac: Option<f64>,
    pub start: V,
    pub goal_preds: Vec<Pred>,
    pub goal_samples: Vec<V>,
    pub obstacles: Vec<Pred>,
    pub planner: &'static str,
    pub step: f64,
    pub bias: f64,
    pub radius: f64,
    pub prm_timeout: f64,
    pub seed: u64,
    pub timeout_secs: f32,
    /// API calls made on ONE planner object: "setup", "setup2" (second validity callback),
    /// "construct", "solve"
    pub history: Vec<&'static str>,
    /// obstacles of the second validity callback
    pub obstacles2: Vec<Pred>,
}

fn spec_json(spec: &Spec) -> Value {
    match spec {
        Spec::Rv { dim, bounds, frac } => json!({"kind": "rv", "dim": dim, "bounds": bounds.as_ref().map(|b| b.iter().map(|(l, u)| json!([l, u])).collect::<Vec<_>>()), "frac": frac}),
        Spec::So2 { bounds, frac } => json!({"kind": "so2", "bounds": bounds.map(|(l, u)| json!([l, u])), "frac": frac}),
        Spec::So3 { bounds, frac } => json!({"kind": "so3", "bounds": bounds.map(|(c, r)| json!({"centre": c, "radius": r})), "frac": frac}),
        Spec::Cmp { parts, weights } => json!({"kind": "cmp", "parts": parts.iter().map(spec_json).collect::<Vec<_>>(), "weights": weights}),
        Spec::Se2 { weight, bounds } => json!({"kind": "se2", "weight": weight, "bounds": bounds.as_ref().map(|b| b.iter().map(|(l, u)| json!([l, u])).collect::<Vec<_>>())}),
        Spec::Se3 { weight, bounds } => json!({"kind": "se3", "weight": weight, "bounds": bounds.as_ref().map(|b| b.iter().map(|(l, u)| json!([l, u])).collect::<Vec<_>>())}),
    }
}
fn v_json(v: &V) -> Value {
    match v {
        V::Rv(x) => json!({"rv": x}),
        V::So2(a) => json!({"so2": a}),
        V::So3(q) => json!({"so3": q}),
        V::Cmp(c) => json!({"cmp": c.iter().map(v_json).collect::<Vec<_>>()}),
    }
}

impl PyScenario {
    pub fn json(&self) -> Value {
        json!({
            "id": self.id, "variant": self.kit, "space": spec_json(&self.spec), "start": v_json(&self.start),
            "goal": {"preds": self.goal_preds.iter().map(|p| p.json()).collect::<Vec<_>>(), "samples": self.goal_samples.iter().map(v_json).collect::<Vec<_>>()},
            "obstacles": self.obstacles.iter().map(|p| p.json()).collect::<Vec<_>>(),
            "planner": self.planner, "step": self.step, "bias": self.bias, "radius": self.radius, "prm_timeout": self.prm_timeout,
            "seed": self.seed, "timeout_secs": self.timeout_secs as f64,
            "history": self.history, "obstacles2": self.obstacles2.iter().map(|p| p.json()).collect::<Vec<_>>(),
        })
    }
}

fn err_text(e: &PlanningError) -> String {
    e.to_string()
}

enum AnyPlanner<K: Kit> {
    Rrt(RRT<K::S, K::SP, MirrorGoal<K>>),
    Star(RRTStar<K::S, K::SP, MirrorGoal<K>>),
    Connect(RRTConnect<K::S, K::SP, MirrorGoal<K>>),
    Prm(PRM<K::S, K::SP, MirrorGoal<K>>),
}

/// The Rust core's own results for a scenario: the same seed, parameters, callbacks, logical clock
/// and the same history of API calls on one planner object. One entry per `solve` call.
pub fn core_result<K: Kit>(sc: &PyScenario) -> Value {
    oxmpl::verif::clock_reset(1_000_000);
    let space = Arc::new(K::build(&sc.spec));
    let calls = std::rc::Rc::new(Cell::new(0u64));
    let hash = std::rc::Rc::new(Cell::new(0xcbf29ce484222325u64));
    let seen = std::rc::Rc::new(std::cell::RefCell::new(Vec::new()));
    let world = Arc::new(MirrorWorld::<K> { obstacles: sc.obstacles.clone(), calls: calls.clone(), hash: hash.clone(), seen: seen.clone(), _k: std::marker::PhantomData });
    let world2 = Arc::new(MirrorWorld::<K> { obstacles: sc.obstacles2.clone(), calls: calls.clone(), hash: hash.clone(), seen: seen.clone(), _k: std::marker::PhantomData });
    let goal = Arc::new(MirrorGoal::<K> { preds: sc.goal_preds.clone(), samples: sc.goal_samples.iter().map(K::from_v).collect(), sample_calls: Cell::new(0), pred_calls: Cell::new(0) });
    let pd = Arc::new(ProblemDefinition { space, start_states: vec![K::from_v(&sc.start)], goal: goal.clone() });
    let cfg = PlannerConfig { seed: Some(sc.seed) };
    let t = Duration::from_secs_f32(sc.timeout_secs);
    let mut p: AnyPlanner<K> = match sc.planner {
        "RRT" => AnyPlanner::Rrt(RRT::new(sc.step, sc.bias, &cfg)),
        "RRTStar" => AnyPlanner::Star(RRTStar::new(sc.step, sc.bias, sc.radius, &cfg)),
        "RRTConnect" => AnyPlanner::Connect(RRTConnect::new(sc.step, sc.bias, &cfg)),
        "PRM" => AnyPlanner::Prm(PRM::new(sc.prm_timeout, sc.step, &cfg)),
        _ => unreachable!(),
    };
    let mut out_calls: Vec<Value> = Vec::new();
    // the Python wrapper raises on a failed construct_roadmap; the history ends there
    let mut aborted = false;
    for op in &sc.history {
        if aborted {
            break;
        }
        match *op {
            "setup" | "setup2" => {
                let vc: Arc<dyn StateValidityChecker<K::S>> = if *op == "setup" { world.clone() } else { world2.clone() };
                match &mut p {
                    AnyPlanner::Rrt(x) => x.setup(pd.clone(), vc),
                    AnyPlanner::Star(x) => x.setup(pd.clone(), vc),
                    AnyPlanner::Connect(x) => x.setup(pd.clone(), vc),
                    AnyPlanner::Prm(x) => x.setup(pd.clone(), vc),
                }
            }
            "construct" => {
                if let AnyPlanner::Prm(x) = &mut p {
                    oxmpl::verif::clock_reset(1_000_000);
                    if let Err(e) = x.construct_roadmap() {
                        out_calls.push(json!({"result": err_text(&e), "path_bits": []}));
                        aborted = true;
                    }
                }
            }
            "solve" => {
                oxmpl::verif::clock_reset(1_000_000);
                let res: Result<Vec<K::S>, PlanningError> = match &mut p {
                    AnyPlanner::Rrt(x) => x.solve(t).map(|x| x.0),
                    AnyPlanner::Star(x) => x.solve(t).map(|x| x.0),
                    AnyPlanner::Connect(x) => x.solve(t).map(|x| x.0),
                    AnyPlanner::Prm(x) => x.solve(t).map(|x| x.0),
                };
                let (result, path) = match &res {
                    Ok(p) => (
                        "ok".to_string(),
                        p.iter()
                            .map(|s| {
                                let mut x = Vec::new();
                                flatten(&K::to_v(s), &mut x);
                                x.iter().map(|c| c.to_bits()).collect::<Vec<u64>>()
                            })
                            .collect::<Vec<_>>(),
                    ),
                    Err(e) => (err_text(e), vec![]),
                };
                out_calls.push(json!({"result": result, "path_bits": path}));
            }
            other => panic!("unknown history op {other}"),
        }
    }
    json!({"calls": out_calls, "valid_calls": calls.get(), "valid_hash": hash.get(), "goal_pred_calls": goal.pred_calls.get(), "goal_sample_calls": goal.sample_calls.get(),
        "seen_states": seen.borrow().iter().map(|x| x.iter().map(|c| c.to_bits()).collect::<Vec<u64>>()).collect::<Vec<_>>()})
}

fn quat(axis: [f64; 3], deg: f64) -> [f64; 4] {
    crate::catalog::quat_axis_angle(axis, deg)
}

/// The scenario lattice: 6 variants x 4 planners x worlds x parameter sets x seeds.
pub fn scenarios(tier: &str) -> Vec<PyScenario> {
    let thorough = tier != "quick";
    let mut out = Vec::new();
    let seeds: Vec<u64> = if thorough { vec![0, 1, 7, 12345, u64::MAX] } else { vec![0, 7] };
    let nworlds = if thorough { 4 } else { 2 };
    struct Variant {
        kit: &'static str,
        spec: Spec,
        start: V,
        goal_preds: Vec<Pred>,
        goal_samples: Vec<V>,
        worlds: Vec<Vec<Pred>>,
        unit: f64,
    }
    let z = [0.0, 0.0, 1.0];
    let g3 = quat(z, 120.0);
    let cmp = |x: f64, y: f64, a: f64| V::Cmp(vec![V::Rv(vec![x, y]), V::So2(a)]);
    let se3 = |x: f64, y: f64, zc: f64, q: [f64; 4]| V::Cmp(vec![V::Rv(vec![x, y, zc]), V::So3(q)]);
    let variants = vec![
        Variant {
            kit: "RealVector",
            spec: Spec::Rv { dim: 2, bounds: Some(vec![(0.0, 10.0), (0.0, 10.0)]), frac: None },
            start: V::Rv(vec![1.0, 5.0]),
            goal_preds: vec![Pred::SqDistLe { idx: vec![0, 1], c: vec![9.0, 5.0], r2: 0.25 }],
            goal_samples: vec![V::Rv(vec![9.0, 5.0]), V::Rv(vec![9.0, 5.25]), V::Rv(vec![8.75, 4.875])],
            worlds: vec![
                vec![],
                vec![Pred::SqDistLe { idx: vec![0, 1], c: vec![5.0, 5.0], r2: 2.25 }],
                vec![Pred::Range { i: 0, lo: 4.75, hi: 5.25 }, Pred::SqDistLe { idx: vec![0, 1], c: vec![7.5, 2.0], r2: 1.0 }],
                vec![Pred::SqDistLe { idx: vec![0, 1], c: vec![3.0, 6.0], r2: 1.5 }, Pred::SqDistLe { idx: vec![0, 1], c: vec![6.5, 4.0], r2: 2.0 }],
            ],
            unit: 0.5,
        },
        Variant {
            kit: "SO2",
            spec: Spec::So2 { bounds: None, frac: None },
            start: V::So2(-2.0),
            goal_preds: vec![Pred::Range { i: 0, lo: 1.4, hi: 1.6 }],
            goal_samples: vec![V::So2(1.5), V::So2(1.5625)],
            worlds: vec![vec![], vec![Pred::Range { i: 0, lo: -0.5, hi: 0.0 }], vec![Pred::Range { i: 0, lo: 2.5, hi: 3.0 }, Pred::Range { i: 0, lo: -0.25, hi: 0.25 }], vec![Pred::Range { i: 0, lo: -3.125, hi: -2.75 }]],
            unit: 0.3,
        },
        Variant {
            kit: "SO2",
            spec: Spec::So2 { bounds: Some((-2.5, 2.8)), frac: None },
            start: V::So2(-2.0),
            goal_preds: vec![Pred::Range { i: 0, lo: 1.4, hi: 1.6 }],
            goal_samples: vec![V::So2(1.5), V::So2(1.5625)],
            worlds: vec![vec![], vec![Pred::Range { i: 0, lo: -0.5, hi: 0.0 }], vec![Pred::Range { i: 0, lo: 2.5, hi: 3.0 }, Pred::Range { i: 0, lo: -0.25, hi: 0.25 }], vec![Pred::Range { i: 0, lo: -1.0, hi: -0.75 }]],
            unit: 0.3,
        },
        // coarse resolution: a motion shorter than one check step is validated at its raw end state only,
        // so uncanonicalised samples reach the checker as themselves
        Variant {
            kit: "SO2",
            spec: Spec::So2 { bounds: Some((-2.5, 2.8)), frac: Some(1.0) },
            start: V::So2(-2.0),
            goal_preds: vec![Pred::Range { i: 0, lo: 1.4, hi: 1.6 }],
            goal_samples: vec![V::So2(1.5), V::So2(1.5625)],
            worlds: vec![vec![], vec![Pred::Range { i: 0, lo: -0.5, hi: -0.25 }], vec![Pred::Range { i: 0, lo: 2.5, hi: 3.0 }, Pred::Range { i: 0, lo: -0.25, hi: 0.0 }], vec![Pred::Range { i: 0, lo: -1.0, hi: -0.75 }]],
            unit: 0.3,
        },
        Variant {
            kit: "SO3",
            spec: Spec::So3 { bounds: None, frac: None },
            start: V::So3([0.0, 0.0, 0.0, 1.0]),
            goal_preds: vec![Pred::AbsDotGe { idx: vec![0, 1, 2, 3], q: g3.to_vec(), c: 0.995 }],
            goal_samples: vec![V::So3(g3), V::So3(quat(z, 125.0))],
            worlds: vec![
                vec![],
                vec![Pred::AbsDotGe { idx: vec![0, 1, 2, 3], q: quat(z, 60.0).to_vec(), c: 0.99 }],
                vec![Pred::AbsDotGe { idx: vec![0, 1, 2, 3], q: quat([1.0, 0.0, 0.0], 90.0).to_vec(), c: 0.97 }, Pred::AbsDotGe { idx: vec![0, 1, 2, 3], q: quat(z, 75.0).to_vec(), c: 0.995 }],
                vec![Pred::AbsDotGe { idx: vec![0, 1, 2, 3], q: quat([0.0, 1.0, 0.0], 45.0).to_vec(), c: 0.98 }],
            ],
            unit: 0.35,
        },
        Variant {
            kit: "Compound",
            spec: Spec::Cmp { parts: vec![Spec::Rv { dim: 2, bounds: Some(vec![(0.0, 10.0), (0.0, 10.0)]), frac: None }, Spec::So2 { bounds: None, frac: None }], weights: vec![1.0, 0.5] },
            start: cmp(1.0, 5.0, 0.0),
            goal_preds: vec![Pred::SqDistLe { idx: vec![0, 1], c: vec![9.0, 5.0], r2: 0.25 }],
            goal_samples: vec![cmp(9.0, 5.0, 0.0), cmp(9.0, 5.25, 2.0), cmp(8.75, 5.0, -3.0)],
            worlds: vec![
                vec![],
                vec![Pred::SqDistLe { idx: vec![0, 1], c: vec![5.0, 5.0], r2: 2.25 }],
                vec![Pred::Range { i: 2, lo: 1.0, hi: 1.5 }, Pred::SqDistLe { idx: vec![0, 1], c: vec![6.0, 3.0], r2: 1.0 }],
                vec![Pred::SqDistLe { idx: vec![0, 1, 2], c: vec![5.0, 5.0, 0.0], r2: 3.0 }],
            ],
            unit: 0.6,
        },
        Variant {
            kit: "SE2",
            spec: Spec::Se2 { weight: 0.5, bounds: Some(vec![(0.0, 10.0), (0.0, 10.0), (-PI, PI)]) },
            start: cmp(1.0, 5.0, 0.0),
            goal_preds: vec![Pred::SqDistLe { idx: vec![0, 1], c: vec![9.0, 5.0], r2: 0.25 }],
            goal_samples: vec![cmp(9.0, 5.0, 0.0), cmp(9.0, 5.25, 2.0)],
            worlds: vec![
                vec![],
                vec![Pred::SqDistLe { idx: vec![0, 1], c: vec![5.0, 5.0], r2: 2.25 }],
                vec![Pred::Range { i: 2, lo: -1.5, hi: -1.0 }, Pred::SqDistLe { idx: vec![0, 1], c: vec![6.0, 7.0], r2: 1.0 }],
                vec![Pred::Range { i: 0, lo: 4.75, hi: 5.25 }],
            ],
            unit: 0.6,
        },
        Variant {
            kit: "SE3",
            spec: Spec::Se3 { weight: 0.5, bounds: Some(vec![(0.0, 10.0), (0.0, 10.0), (0.0, 10.0)]) },
            start: se3(1.0, 5.0, 5.0, [0.0, 0.0, 0.0, 1.0]),
            goal_preds: vec![Pred::SqDistLe { idx: vec![0, 1, 2], c: vec![9.0, 5.0, 5.0], r2: 0.36 }],
            goal_samples: vec![se3(9.0, 5.0, 5.0, [0.0, 0.0, 0.0, 1.0]), se3(9.0, 5.25, 5.0, quat(z, 90.0))],
            worlds: vec![
                vec![],
                vec![Pred::SqDistLe { idx: vec![0, 1, 2], c: vec![5.0, 5.0, 5.0], r2: 2.25 }],
                vec![Pred::AbsDotGe { idx: vec![3, 4, 5, 6], q: quat([1.0, 0.0, 0.0], 90.0).to_vec(), c: 0.98 }, Pred::SqDistLe { idx: vec![0, 1, 2], c: vec![6.0, 3.0, 5.0], r2: 1.0 }],
                vec![Pred::Range { i: 0, lo: 4.75, hi: 5.25 }],
            ],
            unit: 0.8,
        },
    ];
    for v in &variants {
        for (wi, w) in v.worlds.iter().take(nworlds).enumerate() {
            for planner in ["RRT", "RRTStar", "RRTConnect", "PRM"] {
                // parameter sets: (step multiplier, bias, radius multiplier, iterations)
                let psets: Vec<(f64, f64, f64, usize)> = if thorough { vec![(1.0, 0.05, 2.0, 60), (2.0, 0.5, 1.5, 40), (0.5, 0.2, 4.0, 120)] } else { vec![(1.0, 0.05, 2.0, 60), (2.0, 0.5, 1.5, 40)] };
                for (pi, (sm, bias, rm, its)) in psets.iter().enumerate() {
                    for &seed in &seeds {
                        let step = v.unit * sm * if planner == "PRM" { 3.0 } else { 1.0 };
                        let base = PyScenario {
                            id: format!("{}/{}/w{wi}/p{pi}/s{seed}", if matches!(v.spec, Spec::So2 { bounds: Some(_), frac: Some(_) }) { "SO2bf" } else if matches!(v.spec, Spec::So2 { bounds: Some(_), .. }) { "SO2b" } else { v.kit }, planner),
                            kit: v.kit,
                            spec: v.spec.clone(),
                            frac: None,
                            start: v.start.clone(),
                            goal_preds: v.goal_preds.clone(),
                            goal_samples: v.goal_samples.clone(),
                            obstacles: w.clone(),
                            planner,
                            step,
                            bias: *bias,
                            radius: step * rm,
                            prm_timeout: (*its as f64 - 0.5) * 1e-3,
                            seed,
                            timeout_secs: if planner == "PRM" { 10.0 } else { ((*its as f64) - 0.5) as f32 * 1e-3 },
                            history: if planner == "PRM" { vec!["setup", "construct", "solve"] } else { vec!["setup", "solve"] },
                            obstacles2: v.worlds[(wi + 1) % v.worlds.len()].clone(),
                        };
                        out.push(base.clone());
                        // histories on one planner object (first parameter set only): a second solve, and
                        // a re-setup with a different validity callback followed by a solve
                        if pi == 0 {
                            let hs: Vec<(&str, Vec<&'static str>)> = if planner == "PRM" {
                                vec![("h-solve-solve", vec!["setup", "construct", "solve", "solve"]), ("h-resetup", vec!["setup", "construct", "solve", "setup2", "construct", "solve"]), ("h-construct-twice", vec!["setup", "construct", "construct", "solve"])]
                            } else {
                                vec![("h-solve-solve", vec!["setup", "solve", "solve"]), ("h-resetup", vec!["setup", "solve", "setup2", "solve", "solve"]), ("h-setup-twice", vec!["setup", "setup2", "solve"])]
                            };
                            for (hn, h) in hs {
                                let mut x = base.clone();
                                x.id = format!("{}/{hn}", base.id);
                                x.history = h;
                                out.push(x);
                            }
                            // a resolution set through the wrapper's set_longest_valid_segment_fraction
                            if let Spec::Rv { .. } | Spec::So2 { .. } | Spec::So3 { .. } = &v.spec {
                                for (fr, late) in [(0.2, false), (0.011, false), (2.0, false), (-1.0, false), (0.2, true), (1.0, true)] {
                                    let mut x = base.clone();
                                    // late: the resolution is set after the space object has already served a problem definition
                                    x.id = if late { format!("{}/frac-late{fr}", base.id) } else { format!("{}/frac{fr}", base.id) };
                                    match &mut x.spec {
                                        Spec::Rv { frac, .. } | Spec::So2 { frac, .. } | Spec::So3 { frac, .. } => *frac = Some(fr),
                                        _ => {}
                                    }
                                    out.push(x);
                                }
                            }
                            // a start the checker accepts but the space bounds reject / a start quaternion that is
                            // unit only up to rounding: the path begins with exactly what the user passed in
                            if wi == 0 {
                                let odd: Option<V> = match (&v.spec, &v.start) {
                                    (Spec::Rv { .. }, V::Rv(x)) => Some(V::Rv(vec![-0.75, x[1]])),
                                    (Spec::So2 { bounds: Some((lo, _)), .. }, V::So2(_)) => Some(V::So2(lo - 0.25)),
                                    (Spec::So3 { .. }, V::So3(_)) => Some(V::So3(quat([1.0, 2.0, 3.0], 77.0))),
                                    (Spec::Se2 { .. }, V::Cmp(c)) | (Spec::Cmp { .. }, V::Cmp(c)) => {
                                        let mut c = c.clone();
                                        if let V::Rv(x) = &mut c[0] {
                                            x[0] = -0.75;
                                        }
                                        Some(V::Cmp(c))
                                    }
                                    (Spec::Se3 { .. }, V::Cmp(c)) => {
                                        let mut c = c.clone();
                                        c[1] = V::So3(quat([1.0, 2.0, 3.0], 77.0));
                                        Some(V::Cmp(c))
                                    }
                                    _ => None,
                                };
                                if let Some(st) = odd {
                                    let mut x = base.clone();
                                    x.id = format!("{}/odd-start", base.id);
                                    x.start = st;
                                    out.push(x);
                                }
                            }
                            // the robot already stands in the goal: the goal sampler returns the start itself
                            if wi == 0 {
                                for (dn, b) in [("at-goal-bias1", 1.0), ("at-goal-bias0.5", 0.5)] {
                                    let mut x = base.clone();
                                    x.id = format!("{}/{dn}", base.id);
                                    x.start = v.goal_samples[0].clone();
                                    x.goal_samples = vec![v.goal_samples[0].clone()];
                                    x.bias = b;
                                    if planner != "PRM" {
                                        x.history = vec!["setup", "solve", "solve"];
                                    }
                                    out.push(x);
                                }
                            }
                        }
                    }
                }
            }
        }
    }
    // RRT*: a node at a distance from the new state that EQUALS the rewiring radius in double precision,
    // for radii that single precision cannot represent (0.3, 0.7, 1.1): the neighbour test `d < r` is decided
    // by the exact double the user passed. Goal bias 1, goal samples q1 (not in the goal) then q2 (in it).
    for r in [0.3f64, 0.7, 1.1] {
        let q1 = V::Rv(vec![r - 0.1, 5.1]);
        let q2 = V::Rv(vec![r, 5.0]);
        out.push(PyScenario {
            id: format!("RealVector/RRTStar/radius-knife-edge/r{r}"),
            kit: "RealVector",
            spec: Spec::Rv { dim: 2, bounds: Some(vec![(0.0, 10.0), (0.0, 10.0)]), frac: None },
            frac: None,
            start: V::Rv(vec![0.0, 5.0]),
            goal_preds: vec![Pred::SqDistLe { idx: vec![0, 1], c: vec![r, 5.0], r2: 0.0025 }],
            goal_samples: vec![q1, q2],
            obstacles: vec![],
            planner: "RRTStar",
            step: 2.0,
            bias: 1.0,
            radius: r,
            prm_timeout: 0.0,
            seed: 1,
            timeout_secs: 0.0095,
            history: vec!["setup", "solve"],
            obstacles2: vec![],
        });
    }
    out
}

fn core_for(sc: &PyScenario) -> Value {
    match sc.kit {
        "RealVector" => core_result::<Rv>(sc),
        "SO2" => core_result::<So2>(sc),
        "SO3" => core_result::<So3>(sc),
        "Compound" => core_result::<Cmp>(sc),
        "SE2" => core_result::<Se2>(sc),
        "SE3" => core_result::<Se3>(sc),
        _ => unreachable!(),
    }
}

// ----------------------------------------------------------------------------------------------
// wrapper lattice (C12 arguments through the Python constructors)

fn fb(x: f64) -> Value {
    json!(x.to_bits())
}

fn wrapper_cases() -> Vec<Value> {
    let mut out = Vec::new();
    let vals = [f64::NEG_INFINITY, -5.0, -PI, -1.0, 0.0, 1.0, PI, 5.0, f64::INFINITY, f64::NAN, 4.0, -4.0];
    // RealVectorStateSpace
    for dim in 0..=3usize {
        for len in 0..=3usize {
            let b: Vec<(f64, f64)> = (0..len).map(|i| (i as f64, i as f64 + 1.5)).collect();
            let r = RealVectorStateSpace::new(dim, Some(b.clone()));
            out.push(json!({"ctor": "RealVectorStateSpace", "dim": dim, "bounds": b.iter().map(|(l, u)| json!([fb(*l), fb(*u)])).collect::<Vec<_>>(),
                "ok": r.is_ok(), "extent": r.as_ref().ok().map(|s| fb(s.get_maximum_extent()))}));
        }
        let r = RealVectorStateSpace::new(dim, None);
        out.push(json!({"ctor": "RealVectorStateSpace", "dim": dim, "bounds": Value::Null, "ok": r.is_ok(), "extent": r.as_ref().ok().map(|s| fb(s.get_maximum_extent()))}));
    }
    for &l in &vals {
        for &u in &vals {
            let b = vec![(l, u), (0.0, 2.0)];
            let r = RealVectorStateSpace::new(2, Some(b.clone()));
            let d = r.as_ref().ok().map(|s| {
                use oxmpl::base::state::RealVectorState;
                fb(s.distance(&RealVectorState::new(vec![0.25, 1.0]), &RealVectorState::new(vec![-3.0, 0.5])))
            });
            out.push(json!({"ctor": "RealVectorStateSpace", "dim": 2, "bounds": b.iter().map(|(l, u)| json!([fb(*l), fb(*u)])).collect::<Vec<_>>(), "ok": r.is_ok(), "extent": r.as_ref().ok().map(|s| fb(s.get_maximum_extent())), "dist": d, "p": [fb(0.25), fb(1.0)], "q": [fb(-3.0), fb(0.5)]}));
            let r2 = SO2StateSpace::new(Some((l, u)));
            let d2 = r2.as_ref().ok().map(|s| fb(s.distance(&SO2State::new(3.0), &SO2State::new(-3.0))));
            out.push(json!({"ctor": "SO2StateSpace", "bounds": [fb(l), fb(u)], "ok": r2.is_ok(), "extent": r2.as_ref().ok().map(|s| fb(s.get_maximum_extent())), "dist": d2, "a": fb(3.0), "b": fb(-3.0)}));
            let b3 = vec![(0.0, 1.0), (0.0, 1.0), (l, u)];
            let r3 = SE2StateSpace::new(0.5, Some(b3.clone()));
            let d3 = r3.as_ref().ok().map(|s| fb(s.distance(&SE2State::new(0.5, 0.5, 3.0), &SE2State::new(0.25, 1.0, -3.0))));
            out.push(json!({"ctor": "SE2StateSpace", "weight": fb(0.5), "bounds": b3.iter().map(|(l, u)| json!([fb(*l), fb(*u)])).collect::<Vec<_>>(), "ok": r3.is_ok(), "dist": d3}));
            let r4 = SE3StateSpace::new(0.5, Some(b3.clone()));
            out.push(json!({"ctor": "SE3StateSpace", "weight": fb(0.5), "bounds": b3.iter().map(|(l, u)| json!([fb(*l), fb(*u)])).collect::<Vec<_>>(), "ok": r4.is_ok()}));
        }
    }
    let r = SO2StateSpace::new(None);
    out.push(json!({"ctor": "SO2StateSpace", "bounds": Value::Null, "ok": r.is_ok(), "extent": r.as_ref().ok().map(|s| fb(s.get_maximum_extent()))}));
    for n in [0usize, 1, 2, 4] {
        let b: Vec<(f64, f64)> = vec![(0.0, 1.0); n];
        out.push(json!({"ctor": "SE2StateSpace", "weight": fb(1.0), "bounds": b.iter().map(|(l, u)| json!([fb(*l), fb(*u)])).collect::<Vec<_>>(), "ok": SE2StateSpace::new(1.0, Some(b.clone())).is_ok()}));
        out.push(json!({"ctor": "SE3StateSpace", "weight": fb(1.0), "bounds": b.iter().map(|(l, u)| json!([fb(*l), fb(*u)])).collect::<Vec<_>>(), "ok": SE3StateSpace::new(1.0, Some(b.clone())).is_ok()}));
    }
    // SO3StateSpace
    let centre = quat([1.0, 0.0, 0.0], 90.0);
    for r in [-1.0, -0.0, 0.0, 1e-10, 1.0, PI, 4.0, f64::INFINITY, f64::NAN] {
        let sp = SO3StateSpace::new(Some((crate::kit::so3_of(&centre), r)));
        let d = sp.as_ref().ok().map(|s| fb(s.distance(&SO3State::identity(), &crate::kit::so3_of(&quat([0.0, 0.0, 1.0], 100.0)))));
        out.push(json!({"ctor": "SO3StateSpace", "centre": centre.iter().map(|c| fb(*c)).collect::<Vec<_>>(), "radius": fb(r), "ok": sp.is_ok(), "extent": sp.as_ref().ok().map(|s| fb(s.get_maximum_extent())), "dist": d,
            "q": quat([0.0, 0.0, 1.0], 100.0).iter().map(|c| fb(*c)).collect::<Vec<_>>()}));
    }
    // distance over a pair lattice for every space kind (incl. compound and SE(3)) and bounded variants
    out.extend(distance_lattice_cases());
    // state constructors
    for a in crate::lattice::so2_angles(true) {
        out.push(json!({"ctor": "SO2State", "value": fb(a), "stored": fb(SO2State::new(a).value)}));
        out.push(json!({"ctor": "SE2State", "x": fb(1.0), "y": fb(-2.0), "yaw": fb(a), "stored": fb(SE2State::new(1.0, -2.0, a).get_yaw())}));
    }
    out
}

/// What the Python constructors store for a value: SO2State(x) / SE2State(..., yaw) canonicalise the
/// angle once (the other state types store their arguments as given).
fn as_python_stores(v: &V) -> V {
    match v {
        V::So2(a) => V::So2(SO2State::new(*a).value),
        V::Cmp(c) => V::Cmp(c.iter().map(as_python_stores).collect()),
        other => other.clone(),
    }
}

fn distance_cases_for<K: Kit>(kit: &'static str, spec: &Spec, lat: &[V]) -> Value {
    let sp = K::build(spec);
    let n = lat.len().min(14);
    let mut pairs = Vec::new();
    for i in 0..n {
        for j in 0..n {
            let d = sp.distance(&K::from_v(&as_python_stores(&lat[i])), &K::from_v(&as_python_stores(&lat[j])));
            pairs.push(json!({"a": v_bits_json(&lat[i]), "b": v_bits_json(&lat[j]), "dist": fb(d)}));
        }
    }
    json!({"ctor": "space-distances", "variant": kit, "space": spec_json(spec), "pairs": pairs})
}

/// like v_json but every number as its bit pattern (JSON cannot carry -0.0 / huge values faithfully)
fn v_bits_json(v: &V) -> Value {
    match v {
        V::Rv(x) => json!({"rv": x.iter().map(|c| fb(*c)).collect::<Vec<_>>()}),
        V::So2(a) => json!({"so2": fb(*a)}),
        V::So3(q) => json!({"so3": q.iter().map(|c| fb(*c)).collect::<Vec<_>>()}),
        V::Cmp(c) => json!({"cmp": c.iter().map(v_bits_json).collect::<Vec<_>>()}),
    }
}

fn distance_lattice_cases() -> Vec<Value> {
    use crate::lattice::*;
    let mut out = Vec::new();
    let so2_canon: Vec<V> = so2_canonical().into_iter().map(V::So2).collect();
    out.push(distance_cases_for::<Rv>("RealVector", &Spec::Rv { dim: 2, bounds: Some(vec![(-5.0, 5.0), (0.0, 4.0)]), frac: None }, &rv_lattice(2)));
    out.push(distance_cases_for::<Rv>("RealVector", &Spec::Rv { dim: 3, bounds: None, frac: None }, &rv_lattice(3)));
    out.push(distance_cases_for::<So2>("SO2", &Spec::So2 { bounds: None, frac: None }, &so2_canon));
    out.push(distance_cases_for::<So2>("SO2", &Spec::So2 { bounds: Some((-3.0, 3.0)), frac: None }, &so2_canon));
    out.push(distance_cases_for::<So3>("SO3", &Spec::So3 { bounds: None, frac: None }, &so3_lattice(false)));
    out.push(distance_cases_for::<So3>("SO3", &Spec::So3 { bounds: Some(([0.0, 0.0, 0.0, 1.0], 1.0)), frac: None }, &so3_lattice(false)));
    // unit quaternions whose squared norm rounds below 1: the core's d(q, q) is then 2 acos(1 - ulp) ~ 3e-8,
    // not 0 - and the binding returns the core's value, whatever it is (equal states included)
    {
        use oxmpl::base::space::StateSpace;
        let sp = So3::build(&Spec::So3 { bounds: None, frac: None });
        let mut lat: Vec<V> = Vec::new();
        let mut k = 1u32;
        while lat.len() < 10 && k < 2000 {
            let kf = k as f64;
            let q = quat([kf.sin(), (1.7 * kf).cos(), 0.3 + (0.37 * kf).sin()], 7.0 + 11.0 * kf % 173.0);
            let st = So3::from_v(&as_python_stores(&V::So3(q)));
            if sp.distance(&st, &st) > 0.0 {
                lat.push(V::So3(q));
            }
            k += 1;
        }
        lat.push(V::So3([0.0, 0.0, 0.0, 1.0]));
        out.push(distance_cases_for::<So3>("SO3", &Spec::So3 { bounds: None, frac: None }, &lat));
    }
    let cparts = vec![Spec::Rv { dim: 2, bounds: Some(vec![(-5.0, 5.0), (-5.0, 5.0)]), frac: None }, Spec::So2 { bounds: None, frac: None }];
    for w in [vec![1.0, 0.5], vec![0.0, 2.0], vec![1e-3, 1e3]] {
        out.push(distance_cases_for::<Cmp>("Compound", &Spec::Cmp { parts: cparts.clone(), weights: w }, &compound_lattice(&cparts)));
    }
    let c3 = vec![Spec::So3 { bounds: None, frac: None }, Spec::Rv { dim: 1, bounds: Some(vec![(-5.0, 5.0)]), frac: None }, Spec::So2 { bounds: None, frac: None }];
    out.push(distance_cases_for::<Cmp>("Compound", &Spec::Cmp { parts: c3.clone(), weights: vec![1.0, 2.0, 0.25] }, &compound_lattice(&c3)));
    for w in [0.0, 0.5, 3.0] {
        let s2 = Spec::Se2 { weight: w, bounds: Some(vec![(-5.0, 5.0), (-5.0, 5.0), (-PI, PI)]) };
        let (p2, _) = crate::refspace::as_parts(&s2).unwrap();
        out.push(distance_cases_for::<Se2>("SE2", &s2, &compound_lattice(&p2)));
        let s3 = Spec::Se3 { weight: w, bounds: Some(vec![(-5.0, 5.0), (-5.0, 5.0), (-5.0, 5.0)]) };
        let (p3, _) = crate::refspace::as_parts(&s3).unwrap();
        out.push(distance_cases_for::<Se3>("SE3", &s3, &compound_lattice(&p3)));
    }
    out
}

// ----------------------------------------------------------------------------------------------
// driver invocation

fn py_env() -> (String, String) {
    (format!("{}/target/py/site", crate::report::verif_root()), format!("{}/py/driver.py", crate::report::verif_root()))
}

/// Splits the scenario list over several driver processes (CPython is single-threaded) and merges
/// their reports.
fn run_driver(mode: &str, input: &Value, rep: &mut Report) -> Option<Value> {
    let scs = input["scenarios"].as_array().cloned().unwrap_or_default();
    let n = 16usize.min(scs.len().max(1));
    let chunks: Vec<Value> = (0..n)
        .map(|i| {
            let mut part = input.clone();
            part["scenarios"] = Value::Array(scs.iter().enumerate().filter(|(k, _)| k % n == i).map(|(_, v)| v.clone()).collect());
            if i != 0 && part.get("wrappers").is_some() {
                part["wrappers"] = json!([]);
            }
            part
        })
        .collect();
    let results: Vec<(Option<Value>, Report)> = std::thread::scope(|s| {
        let hs: Vec<_> = chunks
            .iter()
            .enumerate()
            .map(|(i, c)| {
                s.spawn(move || {
                    let mut r = Report::new();
                    let v = run_driver_one(&format!("{mode}_{i}"), mode, c, &mut r);
                    (v, r)
                })
            })
            .collect();
        hs.into_iter().map(|h| h.join().expect("driver thread")).collect()
    });
    let mut merged = json!({"counters": {}, "violations": [], "samples": [], "distinct": [], "engine_errors": []});
    for (v, r) in results {
        rep.merge(r);
        let v = v?;
        for (k, x) in v["counters"].as_object().cloned().unwrap_or_default() {
            let cur = merged["counters"][&k].as_u64().unwrap_or(0);
            merged["counters"][&k] = json!(cur + x.as_u64().unwrap_or(0));
        }
        for key in ["violations", "samples", "distinct", "engine_errors"] {
            let mut a = merged[key].as_array().cloned().unwrap_or_default();
            a.extend(v[key].as_array().cloned().unwrap_or_default());
            merged[key] = Value::Array(a);
        }
    }
    Some(merged)
}

fn run_driver_one(tag: &str, mode: &str, input: &Value, rep: &mut Report) -> Option<Value> {
    let dir = format!("{}/target/py", crate::report::verif_root());
    let _ = std::fs::create_dir_all(&dir);
    let inp = format!("{dir}/{tag}_input.json");
    let outp = format!("{dir}/{tag}_output.json");
    std::fs::write(&inp, serde_json::to_string(input).unwrap()).expect("write driver input");
    let _ = std::fs::remove_file(&outp);
    let (site, driver) = py_env();
    if !std::path::Path::new(&format!("{site}/oxmpl_py.so")).exists() {
        rep.engine_error(format!("{site}/oxmpl_py.so is missing (the check script builds it from /repo)"));
        return None;
    }
    let st = std::process::Command::new("python3")
        .arg(&driver)
        .arg(mode)
        .arg(&inp)
        .arg(&outp)
        .env("PYTHONPATH", &site)
        .stdout(std::process::Stdio::null())
        .stderr(std::process::Stdio::piped())
        .output();
    match st {
        Err(e) => {
            rep.engine_error(format!("could not run python3: {e}"));
            None
        }
        Ok(o) => {
            if !o.status.success() {
                let err = String::from_utf8_lossy(&o.stderr);
                let tail: String = err.lines().rev().take(8).collect::<Vec<_>>().into_iter().rev().collect::<Vec<_>>().join(" | ");
                rep.engine_error(format!("python driver failed ({}): {tail}", o.status));
                return None;
            }
            match std::fs::read_to_string(&outp).ok().and_then(|s| serde_json::from_str::<Value>(&s).ok()) {
                Some(v) => Some(v),
                None => {
                    rep.engine_error("python driver wrote no readable report".into());
                    None
                }
            }
        }
    }
}

fn absorb(prop: &str, report: &Value, rep: &mut Report) {
    if let Some(c) = report["counters"].as_object() {
        for (k, v) in c {
            rep.count(k, v.as_u64().unwrap_or(0));
        }
    }
    if let Some(vs) = report["violations"].as_array() {
        for v in vs {
            let key = v["key"].as_str().unwrap_or("?").to_string();
            let what = v["what"].as_str().unwrap_or("").to_string();
            let n = v["count"].as_u64().unwrap_or(1);
            for _ in 0..n.min(3) {
                rep.violate(format!("{prop}|{key}"), what.clone(), || json!({"kind": "python", "prop": prop, "detail": v["detail"].clone()}));
            }
            if n > 3 {
                *rep.viol_counts.entry(format!("{prop}|{key}")).or_insert(0) += n - 3;
            }
        }
    }
    if let Some(s) = report["samples"].as_array() {
        for x in s.iter().take(6) {
            rep.sample(|| x.clone());
        }
    }
    if let Some(d) = report["distinct"].as_array() {
        for x in d {
            rep.distinct.insert(h128(&[x.as_u64().unwrap_or(0)]));
        }
    }
    if let Some(e) = report["engine_errors"].as_array() {
        for x in e {
            rep.engine_error(x.as_str().unwrap_or("?").to_string());
        }
    }
}

pub fn run_c19(tier: &'static str) -> i32 {
    let t0 = Instant::now();
    let mut rep = Report::new();
    let scs = scenarios(tier);
    rep.count("scenarios", scs.len() as u64);
    // the planners println! on success; stdout is already pointed at /dev/null
    let cases: Vec<Value> = scs
        .iter()
        .map(|sc| {
            let mut j = sc.json();
            let a = core_for(sc);
            let b = core_for(sc);
            if a != b {
                j["nondeterministic_core"] = json!(true);
            }
            j["expected"] = a;
            j
        })
        .collect();
    // knife-edge scenarios: an obstacle edge is placed EXACTLY on a state the core showed to the validity
    // checker (closed range, so that state is invalid and its floating-point neighbour below is valid).
    // If the binding shows the Python callback anything but the core's own state - a re-canonicalised
    // angle, a converted copy that lost a bit - the verdict flips and the returned paths differ.
    let mut knife: Vec<Value> = Vec::new();
    for (sc, c) in scs.iter().zip(cases.iter()) {
        if sc.id.contains("/h-") || sc.id.contains("/at-goal") || sc.id.contains("/frac") || !sc.id.contains("/p0/") || sc.planner == "PRM" {
            continue;
        }
        let seen: Vec<Vec<f64>> = c["expected"]["seen_states"].as_array().map(|a| a.iter().map(|st| st.as_array().map(|v| v.iter().filter_map(|x| x.as_u64()).map(f64::from_bits).collect()).unwrap_or_default()).collect()).unwrap_or_default();
        if seen.len() < 8 {
            continue;
        }
        // the coordinate the edge is put on: the angle where the state has one (a value the wrappers
        // canonicalise), else the first coordinate
        let ci = match sc.kit {
            "Compound" | "SE2" => 2,
            _ => 0,
        };
        let has_angle = matches!(sc.kit, "SO2" | "Compound" | "SE2");
        // prefer values that a second canonicalisation would move (they expose a wrapper that
        // re-normalises what it passes on); then values spread over the run
        let mut picks: Vec<f64> = Vec::new();
        if has_angle {
            picks.extend(seen.iter().map(|x| x[ci]).filter(|a| SO2State::new(*a).value.to_bits() != a.to_bits()).take(3));
        }
        for frac in [0.3, 0.55, 0.8] {
            if picks.len() < 3 {
                picks.push(seen[((seen.len() as f64) * frac) as usize][ci]);
            }
        }
        let mut start0 = Vec::new();
        flatten(&sc.start, &mut start0);
        for (k, a) in picks.into_iter().enumerate() {
            for (side, lo, hi) in [("lo", a, a + 0.02), ("hi", a - 0.02, a)] {
                if !a.is_finite() || (start0[ci] >= lo && start0[ci] <= hi) {
                    continue;
                }
                let mut x = sc.clone();
                x.id = format!("{}/knife{k}{side}", sc.id);
                x.obstacles.push(Pred::Range { i: ci, lo, hi });
                let mut j = x.json();
                j["expected"] = core_for(&x);
                knife.push(j);
            }
        }
    }
    rep.count("knife_edge_scenarios", knife.len() as u64);
    let mut cases = cases;
    cases.extend(knife);
    if cases.iter().any(|c| c.get("nondeterministic_core").is_some()) {
        rep.engine_error("the Rust core gave two different results for the same scenario".into());
    }
    let ok = cases.iter().map(|c| c["expected"]["calls"].as_array().map(|a| a.iter().filter(|x| x["result"] == "ok").count()).unwrap_or(0)).sum::<usize>();
    rep.count("core_paths", ok as u64);
    let cases: Vec<Value> = cases
        .into_iter()
        .map(|mut c| {
            if let Some(e) = c.get_mut("expected").and_then(|e| e.as_object_mut()) {
                e.remove("seen_states");
            }
            c
        })
        .collect();
    let input = json!({"tier": tier, "scenarios": cases, "wrappers": wrapper_cases()});
    if let Some(r) = run_driver("c19", &input, &mut rep) {
        absorb("C19", &r, &mut rep);
    }
    let ev = rep.get("scenarios_compared") + rep.get("wrapper_cases");
    rep.count("evaluations", ev);
    rep.count("transitions", rep.get("validity_calls_compared"));
    let tv = rep.get("scenarios_compared");
    rep.count("traces_validated", tv);
    let meta = CheckMeta {
        prop: "C19",
        tier,
        level: "model_checking",
        rule: "finite lattice of mirrored scenarios (6 problem-definition variants x 4 planners x worlds x parameter sets x seeds), enumerated completely and run through the Python extension (built from /repo with the logical clock) and through the Rust core with bit-identical callbacks (order-fixed IEEE arithmetic, counter-based goal samplers, iteration budgets): outcome class and every path state bit for bit must agree for every call of the history (the sequence of states handed to the validity callback is compared as well and reported as a counter, not as a verdict); PRM paths are additionally judged for soundness against the Python callbacks; plus the C12 constructor lattice through every Python wrapper (ValueError <=> core Err; distances, extents and canonicalised values bit-equal). states = distinct scenarios / wrapper cases; transitions = validity-callback invocations compared",
        exhaustive: true,
        bounds: json!({"scenarios": scs.len()}),
        assumptions: vec!["Python floats are IEEE doubles and the callbacks use only +, -, *, abs and comparisons in a fixed order".into(), "the extension is the cdylib built from /repo with --features oxmpl/verif".into()],
        must_be_positive: vec!["scenarios_compared", "paths_compared_bitwise", "prm_paths_checked_sound", "wrapper_cases", "wrapper_errors_expected", "validity_calls_compared", "validity_traces_identical", "multi_call_histories_compared", "paths_with_repeated_final_state", "knife_edge_scenarios"],
    };
    finish(&meta, rep, t0)
}

pub fn run_c20(tier: &'static str) -> i32 {
    let t0 = Instant::now();
    let mut rep = Report::new();
    let scs: Vec<PyScenario> = scenarios(tier).into_iter().filter(|s| s.id.contains("/w1/") && s.id.contains("/p0/") && (!s.id.contains("/h-") || s.id.ends_with("/h-resetup") || s.id.ends_with("/h-solve-solve")) && !s.id.contains("/at-goal") && !s.id.contains("/frac") && !s.id.contains("/odd-start") && !s.id.starts_with("SO2b")).collect();
    rep.count("scenarios", scs.len() as u64);
    let input = json!({"tier": tier, "scenarios": scs.iter().map(|s| s.json()).collect::<Vec<_>>(), "k_max": if tier == "quick" { 8 } else { 12 }});
    if let Some(r) = run_driver("c20", &input, &mut rep) {
        absorb("C20", &r, &mut rep);
    }
    let ev = rep.get("fault_runs");
    rep.count("evaluations", ev);
    let meta = CheckMeta {
        prop: "C20",
        tier,
        level: "fault_enumeration",
        rule: "fault kind {raise, return None, return 1, return 'x'} x placement {every state inside a fault region; the k-th call for every k < K} x callback {validity, is_satisfied} x 4 planners x 6 Python problem variants x seeds, each compared with the run in which the callback returns False at exactly those calls: identical result (path bits or error text), and no returned path contains a state on which the callback failed; distinct_nontrivial = distinct (scenario, fault) cases in which the fault was actually reached",
        exhaustive: true,
        bounds: json!({"scenarios": scs.len()}),
        assumptions: vec!["the JS binding implements the same policy (as_bool().unwrap_or(false)) but cannot be executed here: no wasm32 target is installed; that half of the anchor is covered by inspection only".into()],
        must_be_positive: vec!["fault_runs", "faults_reached", "fault_runs_with_path", "fault_runs_goal_with_distance_goal"],
    };
    // the schema wants distinct_nontrivial >= 2 for fault_enumeration
    let d = rep.get("faults_reached");
    rep.count("distinct_nontrivial", d);
    let _ = out;
    finish(&meta, rep, t0)
}

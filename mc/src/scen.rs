//! Scenario = (space spec, alphabet, world, start, goal region / goal samples, planner params).
//! `Rig` instantiates a scenario against the real planner and exposes the run primitives the
//! explorations are written in.

use crate::drv::{iters, iters_secs, Drv, Params, Pd, Pk, Snap};
use crate::kit::{Kit, Spec, V};
use crate::refspace;
use crate::seams::{self, GoalMode, HGoal, Obst, SampleMode, Scripted, World};
use oxmpl::base::error::PlanningError;
use oxmpl::base::space::StateSpace;
use serde_json::{json, Value};
use std::sync::Arc;

#[derive(Clone, Debug)]
pub enum ObstSpec {
    Ball(V, f64),
    /// axis-aligned box in the first two coordinates of an Rv / first component: [x0,x1]x[y0,y1]
    Box2(f64, f64, f64, f64),
    /// SO(2)-angle arc [lo, hi] (canonical angles, lo <= hi) on the So2 value or the So2 component
    Arc(f64, f64),
    /// metric shell: r_in <= d(c, s) <= r_out
    Ring(V, f64, f64),
}

#[derive(Clone, Debug)]
pub struct WorldSpec {
    pub name: String,
    pub obst: Vec<ObstSpec>,
}

#[derive(Clone, Debug)]
pub struct Scenario {
    pub kit: &'static str,
    pub spec: Spec,
    pub alphabet: Vec<V>,
    pub world: WorldSpec,
    pub start: V,
    /// goal region: union of balls
    pub goal_balls: Vec<(V, f64)>,
    /// what sample_goal may return
    pub goal_samples: Vec<V>,
    /// index into goal_samples returned by the first sample_goal call (RRT-Connect's goal root)
    pub goal_root: u8,
    /// further start states of the problem definition after the first (the planners plan from the first)
    pub extra_starts: Vec<V>,
    /// the goal sampler fails (once) at its k-th call with error kind 0 / 1
    pub goal_fail_at: Option<(usize, u8)>,
    /// the goal sampler fails at every call from the k-th on
    pub goal_fail_from: Option<(usize, u8)>,
    /// a life before the scenario proper: after a first `setup` the planner is driven with these letters
    /// (PRM: a roadmap is built from them), then `setup` is called again with the same problem
    pub prelife: Vec<u8>,
    /// > 1: the planner is constructed and set up with step / step_raise, and the public step field is
    /// raised to `params.step` only afterwards (what counts is the value the field has when solve runs)
    pub step_raise: f64,
    pub params: Params,
    pub tag: String,
}

impl Scenario {
    pub fn json(&self) -> Value {
        json!({
            "kit": self.kit,
            "space": self.spec.json(),
            "alphabet": self.alphabet.iter().map(|v| v.json()).collect::<Vec<_>>(),
            "world": {"name": self.world.name, "obstacles": self.world.obst.iter().map(|o| json!(format!("{o:?}"))).collect::<Vec<_>>()},
            "start": self.start.json(),
            "goal_balls": self.goal_balls.iter().map(|(c, r)| json!({"c": c.json(), "r": r})).collect::<Vec<_>>(),
            "goal_samples": self.goal_samples.iter().map(|v| v.json()).collect::<Vec<_>>(),
            "goal_root": self.goal_root,
            "extra_starts": self.extra_starts.iter().map(|v| v.json()).collect::<Vec<_>>(),
            "goal_sampler_fails_at": format!("{:?}", self.goal_fail_at),
            "goal_sampler_fails_from": format!("{:?}", self.goal_fail_from),
            "prelife": self.prelife,
            "step_raised_after_setup_by": self.step_raise,
            "params": self.params.json(),
            "tag": self.tag,
        })
    }
}

fn first_rv(v: &V) -> Option<&Vec<f64>> {
    match v {
        V::Rv(x) => Some(x),
        V::Cmp(c) => c.iter().find_map(first_rv),
        _ => None,
    }
}
fn first_so2(v: &V) -> Option<f64> {
    match v {
        V::So2(a) => Some(*a),
        V::Cmp(c) => c.iter().find_map(first_so2),
        _ => None,
    }
}

pub fn dist_fn<K: Kit>(spec: &Spec) -> Arc<dyn Fn(&K::S, &K::S) -> f64> {
    let spec = spec.clone();
    Arc::new(move |a: &K::S, b: &K::S| refspace::dist(&spec, &K::to_v(a), &K::to_v(b)))
}

pub fn build_world<K: Kit>(spec: &Spec, w: &WorldSpec) -> World<K> {
    let dist = dist_fn::<K>(spec);
    let obst = w
        .obst
        .iter()
        .map(|o| match o {
            ObstSpec::Ball(c, r) => Obst::Ball(K::from_v(c), *r),
            ObstSpec::Box2(x0, x1, y0, y1) => {
                let (x0, x1, y0, y1) = (*x0, *x1, *y0, *y1);
                Obst::Pred(
                    Arc::new(move |s: &K::S| {
                        let v = K::to_v(s);
                        let p = first_rv(&v).expect("Box2 needs an Rv part");
                        p[0] >= x0 && p[0] <= x1 && p[1] >= y0 && p[1] <= y1
                    }),
                    format!("box [{x0},{x1}]x[{y0},{y1}]"),
                )
            }
            ObstSpec::Ring(c, r0, r1) => {
                let desc = format!("ring r in [{r0},{r1}] around {c:?}");
                let (c, r0, r1) = (K::from_v(c), *r0, *r1);
                let d = dist.clone();
                Obst::Pred(
                    Arc::new(move |s: &K::S| {
                        let x = d(&c, s);
                        x >= r0 && x <= r1
                    }),
                    desc,
                )
            }
            ObstSpec::Arc(lo, hi) => {
                let (lo, hi) = (*lo, *hi);
                Obst::Pred(
                    Arc::new(move |s: &K::S| {
                        let v = K::to_v(s);
                        let a = refspace::wrap_ref(first_so2(&v).expect("Arc needs an So2 part"));
                        a >= lo && a <= hi
                    }),
                    format!("arc [{lo},{hi}]"),
                )
            }
        })
        .collect();
    World::new(&w.name, obst, dist)
}

/// A metric ball of radius `r` whose centre lies on the shortest path from `target` toward `toward`,
/// placed so that `target` sits `depth` inside its boundary ("marginally inside": the first state a
/// motion check looks at on the way out is already free).
pub fn marginal_ball<K: Kit>(spec: &Spec, target: &V, toward: &V, r: f64, depth: f64) -> ObstSpec {
    let sp = K::build(spec);
    let (t, q) = (K::from_v(target), K::from_v(toward));
    let d = sp.distance(&t, &q);
    let mut c = t.clone();
    sp.interpolate(&t, &q, ((r - depth) / d).min(1.0), &mut c);
    ObstSpec::Ball(K::to_v(&c), r)
}

/// One recorded API call.
pub enum Call<K: Kit> {
    Solve(Result<Vec<K::S>, PlanningError>),
    Construct(Result<(), PlanningError>),
    Panicked(String),
}

pub struct Rig<K: Kit> {
    pub sc: Scenario,
    pub space: Arc<Scripted<K>>,
    pub goal: Arc<HGoal<K>>,
    pub world: Arc<World<K>>,
    pub pd: Arc<Pd<K>>,
    pub drv: Drv<K>,
    pub alphabet: Vec<K::S>,
    pub start: K::S,
}

impl<K: Kit> Rig<K> {
    /// Builds the real space / planner and calls `setup` (unless `do_setup` is false).
    pub fn new(sc: &Scenario, do_setup: bool) -> Self {
        seams::seam_reset();
        oxmpl::verif::clock_reset(1_000_000);
        let inner = K::build(&sc.spec);
        let alphabet: Vec<K::S> = sc.alphabet.iter().map(K::from_v).collect();
        let space = Arc::new(Scripted::<K>::new(inner, alphabet.clone()));
        let dist = dist_fn::<K>(&sc.spec);
        let goal = Arc::new(HGoal::<K>::new(
            sc.goal_balls.iter().map(|(c, r)| (K::from_v(c), *r)).collect(),
            sc.goal_samples.iter().map(K::from_v).collect(),
            dist,
        ));
        let world = Arc::new(build_world::<K>(&sc.spec, &sc.world));
        let start = K::from_v(&sc.start);
        let mut start_states = vec![start.clone()];
        start_states.extend(sc.extra_starts.iter().map(K::from_v));
        let pd = Arc::new(Pd::<K> { space: space.clone(), start_states, goal: goal.clone() });
        let mut drv = if sc.step_raise > 1.0 {
            let mut p0 = sc.params.clone();
            p0.step = sc.params.step / sc.step_raise;
            Drv::<K>::new(&p0)
        } else {
            Drv::<K>::new(&sc.params)
        };
        goal.mode.set(GoalMode::Script);
        goal.fail_at.set(sc.goal_fail_at);
        goal.fail_from.set(sc.goal_fail_from);
        if sc.params.bias >= 1.0 || sc.goal_fail_at.is_some() || sc.goal_fail_from.is_some() {
            // (with a failing goal sampler a planner may fall back to draws the script did not foresee:
            // that ends the call through the deadline and is judged from what the call returns)
            space.expire_when_exhausted.set(true);
        }
        if sc.params.pk == Pk::Connect {
            goal.script.borrow_mut().push(sc.goal_root);
        }
        if do_setup {
            drv.setup(pd.clone(), world.clone());
        }
        if do_setup && sc.step_raise > 1.0 {
            drv.set_step(sc.params.step);
        }
        let mut rig = Rig { sc: sc.clone(), space, goal, world, pd, drv, alphabet, start };
        if do_setup && !sc.prelife.is_empty() {
            if rig.is_prm() {
                let _ = rig.construct(&sc.prelife);
            } else {
                let _ = rig.feed(&sc.prelife);
            }
            if sc.params.pk == Pk::Connect {
                rig.goal.script.borrow_mut().push(sc.goal_root);
            }
            rig.drv.setup(rig.pd.clone(), rig.world.clone());
            rig.space.expire_when_exhausted.set(sc.params.bias >= 1.0 || sc.goal_fail_at.is_some() || sc.goal_fail_from.is_some());
            oxmpl::verif::clock_reset(1_000_000);
        }
        rig
    }
    pub fn logging(&self, on: bool) {
        self.space.log_on.set(on);
        self.goal.log_on.set(on);
        self.world.log_on.set(on);
    }
    pub fn pass_through(&self) {
        self.space.mode.set(SampleMode::PassThrough);
    }
    pub fn goal_mode(&self, m: GoalMode) {
        self.goal.mode.set(m);
    }
    /// Tree planners: run exactly `samples.len()` iterations in one `solve` call unless the call
    /// returns earlier; returns (result, samples consumed).
    pub fn solve_script(&mut self, samples: &[u8]) -> (Result<Vec<K::S>, PlanningError>, usize) {
        assert!(!samples.is_empty());
        let before = self.consumed();
        if self.sc.params.bias >= 1.0 {
            self.goal.script.borrow_mut().extend_from_slice(samples);
        } else {
            self.space.push_script(samples);
        }
        let r = self.drv.solve(iters(samples.len()));
        let used = self.consumed() - before;
        // drop what an early return left unconsumed so later calls start clean
        if self.sc.params.bias >= 1.0 {
            let p = self.goal.pos.get();
            self.goal.script.borrow_mut().truncate(p);
        } else {
            let p = self.space.pos.get();
            self.space.script.borrow_mut().truncate(p);
        }
        (r, used)
    }
    fn consumed(&self) -> usize {
        if self.sc.params.bias >= 1.0 {
            self.goal.pos.get()
        } else {
            self.space.pos.get()
        }
    }
    /// Feeds all of `samples`, issuing as many `solve` calls as needed (a call returns early on
    /// success). Returns every call's result with the number of samples it consumed.
    pub fn feed(&mut self, samples: &[u8]) -> Vec<(Result<Vec<K::S>, PlanningError>, usize)> {
        let mut out = Vec::new();
        let mut pos = 0;
        while pos < samples.len() {
            let (r, used) = self.solve_script(&samples[pos..]);
            pos += used;
            let stop = used == 0;
            out.push((r, used));
            if stop {
                // the call refused to iterate (e.g. InvalidStartState): feeding more cannot progress
                break;
            }
        }
        out
    }
    /// PRM: build the roadmap from exactly these samples.
    pub fn construct(&mut self, samples: &[u8]) -> Result<(), PlanningError> {
        self.space.push_script(samples);
        // a roadmap builder may draw several samples per deadline check: let it finish (see seams)
        self.space.expire_when_exhausted.set(true);
        self.drv.set_prm_timeout(iters_secs(samples.len().max(1)));
        if samples.is_empty() {
            // a zero-length build: timeout negative => loop exits at the first check
            self.drv.set_prm_timeout(-1.0);
        }
        self.drv.construct_roadmap()
    }
    pub fn snapshot(&self) -> Snap<K> {
        self.drv.snapshot()
    }
    pub fn d(&self, a: &K::S, b: &K::S) -> f64 {
        self.space.inner.distance(a, b)
    }
    pub fn lvs(&self) -> f64 {
        self.space.inner.get_longest_valid_segment_length()
    }
    pub fn is_prm(&self) -> bool {
        self.sc.params.pk == Pk::Prm
    }
}

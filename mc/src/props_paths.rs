//! C01–C05: properties of returned paths, decided by exhaustive enumeration of sample sequences
//! over the alphabet, for every scenario of a per-property lattice.

use crate::catalog::{base_of, Base, KITS};
use crate::drv::{err_name, Pk};
use crate::explore::{par_explore, run_history, shards, Caught, Exec, Shard};
use crate::kit::{Kit, Spec, V};
use crate::oracles::{classify_motion, edge_covered, in_bounds_ref, step_tau, Motion};
use crate::report::{finish, CheckMeta, Report};
use crate::scen::{ObstSpec, Rig, Scenario, WorldSpec};
use crate::with_kit;
use oxmpl::base::space::StateSpace;
use serde_json::{json, Value};
use std::f64::consts::PI;
use std::time::Instant;

fn depth_for(kit: &str, tier: &str) -> usize {
    // thorough: one sample deeper on the two cheapest spaces; SO(3) and the compound kinds keep the quick
    // depth and get the wider world / step / radius lattices, every call-boundary position and more seeds
    let deep = matches!(kit, "RealVector" | "SO2" | "SO3");
    match (tier, deep) {
        ("quick", true) => 4,
        ("quick", false) => 3,
        (_, true) if kit != "SO3" => 5,
        (_, true) => 4,
        (_, false) => 3,
    }
}

fn letters_all(b: &Base) -> Vec<u8> {
    (0..b.alphabet.len() as u8).collect()
}

/// Scenario lattice of a path property. Deterministic; replay files index into it.
pub fn scenarios(prop: &str, tier: &str) -> Vec<Scenario> {
    let mut v = scenarios_unordered(prop, tier);
    // families that change a parameter on a live planner first: on a tree where most executions run into the
    // callback cap the run is stopped early, and what these found by then is still reported
    v.sort_by_key(|s| !s.tag.contains("step-raised"));
    v
}

fn scenarios_unordered(prop: &str, tier: &str) -> Vec<Scenario> {
    let thorough = tier != "quick";
    if prop == "C04" {
        return scenarios_c04(tier);
    }
    let mut out = Vec::new();
    if prop == "C01" {
        out.extend(crate::catalog::zero_weight_scenarios("C01", &Pk::ALL));
    }
    if prop == "C05" {
        out.extend(crate::catalog::heavy_weight_scenarios("C05", &Pk::ALL));
    }
    if prop == "C05" {
        // the bounded spaces of C04 (angular intervals wider than pi, cones, compounds): whatever a
        // planner does with a steered state that leaves the bounds must not lengthen the edge
        for mut sc in scenarios_c04(tier) {
            if sc.tag.contains("x0.3") || (thorough && sc.tag.contains("x1/")) {
                sc.tag = sc.tag.replacen("C04/", "C05/bounded/", 1);
                out.push(sc);
            }
        }
    }
    for kit in KITS {
        let b = base_of(kit);
        let mut worlds: Vec<WorldSpec> = Vec::new();
        let steps: Vec<f64>;
        let mut radius_muls = vec![1.5];
        let mut fracs: Vec<Option<f64>> = vec![None];
        match prop {
            "C01" => {
                worlds = b.subset_worlds();
                if !thorough {
                    // quick tier: the 8 obstacle subsets with an even number of obstacles (every obstacle
                    // and every pair of obstacles still occurs); thorough: those and the four single obstacles
                    worlds.retain(|w| w.obst.len() % 2 == 0);
                } else {
                    worlds.retain(|w| w.obst.len() % 2 == 0 || w.obst.len() == 1);
                }
                worlds.push(b.world_named("marginal-start", vec![b.marginal.clone()]));
                worlds.push(b.world_named("goal-overlap", vec![b.goal_overlap.clone()]));
                worlds.push(b.world_named("goal-overlap+subset0101", vec![b.goal_overlap.clone(), b.obstacles[0].clone(), b.obstacles[2].clone()]));
                steps = if thorough { vec![0.6, 1.0, 1e6] } else { vec![1.0, 1.6] };
            }
            "C02" => {
                worlds.push(b.world_free());
                worlds.push(b.world_named("subset0001", vec![b.obstacles[0].clone()]));
                worlds.push(b.world_named("subset0110", vec![b.obstacles[1].clone(), b.obstacles[2].clone()]));
                steps = if thorough { vec![0.6, 1.0, 1.6, 1e6] } else { vec![1.0, 1.6] };
            }
            "C03" => {
                if thorough {
                    worlds.push(b.world_named("subset0001", vec![b.obstacles[0].clone()]));
                }
                worlds.push(b.world_named("subset0111", vec![b.obstacles[0].clone(), b.obstacles[1].clone(), b.obstacles[2].clone()]));
                // slivers: thin obstacles at the centre of the first candidate obstacle
                let centre = match &b.obstacles[0] {
                    ObstSpec::Ball(c, _) => c.clone(),
                    _ => unreachable!(),
                };
                let l = crate::refspace::lvs(&b.spec);
                for (nm, f) in [("sliver0.25L", 0.25), ("sliver0.75L", 0.75), ("sliver1.5L", 1.5)] {
                    if thorough || nm == "sliver0.75L" {
                        worlds.push(b.world_named(nm, vec![ObstSpec::Ball(centre.clone(), 0.5 * f * l)]));
                    }
                }
                if kit == "RealVector" {
                    // wall thicker than L (0.283) but thinner than the step, with a gap at the top
                    worlds.push(b.world_named("wall-gap", vec![ObstSpec::Box2(1.8, 2.2, 0.0, 3.0)]));
                }
                steps = if thorough { vec![0.6, 1.0, 1e6] } else { vec![1.0, 1e6] };
                radius_muls = if thorough { vec![0.5, 1.5, 2.5] } else { vec![2.5] };
                fracs = if thorough { vec![None, Some(0.01), Some(0.2)] } else { vec![None, Some(0.2)] };
            }
            "C05" => {
                worlds.push(b.world_free());
                worlds.push(b.world_named("subset0011", vec![b.obstacles[0].clone(), b.obstacles[1].clone()]));
                steps = if thorough { vec![1e-3, 0.3, 1.0, 1.6, 1e6] } else { vec![0.3, 1.0, 1.6, 1e6] };
                radius_muls = if thorough { vec![0.5, 1.5, 2.5] } else { vec![0.5, 2.5] };
            }
            _ => panic!("scenarios(): {prop}"),
        }
        for w in &worlds {
            for &sm in &steps {
                for pk in Pk::ALL {
                    let rms: Vec<f64> = if pk == Pk::Star { radius_muls.clone() } else { vec![1.0] };
                    for &rm in &rms {
                        for fr in &fracs {
                            let roots: Vec<u8> = if pk == Pk::Connect { vec![0, 1] } else { vec![0] };
                            for &root in &roots {
                                let mut spec = b.spec.clone();
                                if let Some(f) = fr {
                                    match &mut spec {
                                        Spec::Rv { frac, .. } | Spec::So2 { frac, .. } | Spec::So3 { frac, .. } => *frac = Some(*f),
                                        Spec::Cmp { parts, .. } => {
                                            for p in parts.iter_mut() {
                                                if let Spec::Rv { frac, .. } | Spec::So2 { frac, .. } | Spec::So3 { frac, .. } = p {
                                                    *frac = Some(*f)
                                                }
                                            }
                                        }
                                        // SE2/SE3 expose no resolution setter
                                        _ => continue,
                                    }
                                }
                                let params = b.params(pk, sm, rm, 0.0);
                                let mut sc = b.scenario(w.clone(), params, &format!("{prop}/{kit}/{}/{}x{sm}/r{rm}/f{fr:?}/root{root}", w.name, pk.name()));
                                sc.spec = spec;
                                sc.goal_root = root;
                                out.push(sc);
                            }
                        }
                    }
                }
            }
        }
        // problem definitions with a SECOND start state (the planners plan from the first; whatever
        // they do with the others must not put an unchecked or foreign state on the path): one world,
        // one step, every planner; the extra start sits on the far side of the first obstacle
        if matches!(prop, "C01" | "C02" | "C03" | "C05") {
            let w = b.world_named("subset0001", vec![b.obstacles[0].clone()]);
            for pk in Pk::ALL {
                for extra in [b.sub3[1] as usize, b.sub3[2] as usize] {
                    let mut sc = b.scenario(w.clone(), b.params(pk, if pk == Pk::Prm { 1.6 } else { 1.0 }, 2.5, 0.0), &format!("{prop}/{kit}/subset0001/{}/two-starts{extra}", pk.name()));
                    sc.extra_starts = vec![b.alphabet[extra].clone()];
                    out.push(sc);
                }
            }
        }
        if prop == "C01" {
            // the start already satisfies the goal: valid (goal sample 0) and rejected by the checker
            // (goal sample 1, which the goal-overlap obstacle covers) - the latter must be reported as an
            // invalid start by every planner, whatever shortcut a planner takes for trivial queries
            for (nm, gi) in [("start-in-goal-valid", 0usize), ("start-in-goal-invalid", 1usize)] {
                for pk in Pk::ALL {
                    let w = b.world_named("goal-overlap", vec![b.goal_overlap.clone()]);
                    let mut sc = b.scenario(w, b.params(pk, if pk == Pk::Prm { 1.6 } else { 1.0 }, 1.5, 0.0), &format!("C01/{kit}/goal-overlap/{}/{nm}", pk.name()));
                    sc.start = b.goal_samples[gi].clone();
                    out.push(sc);
                }
            }
            // RRT-Connect: the goal root is rejected by the checker AND the goal sampler fails at one of
            // the following redraws (a finite list of goal configurations, a capped rejection sampler)
            for k in [1usize, 2, 3] {
                for kind in [0u8, 1] {
                    let w = b.world_named("goal-overlap", vec![b.goal_overlap.clone()]);
                    let mut sc = b.scenario(w, b.params(Pk::Connect, 1.0, 1.5, 0.0), &format!("C01/{kit}/goal-overlap/RRTConnect/root1/goal-sampler-fails@{k}/{kind}"));
                    sc.goal_root = 1;
                    sc.goal_fail_at = Some((k, kind));
                    out.push(sc);
                }
            }
        }
        if prop == "C01" {
            // the only goal sample lies marginally (0.03 L) inside an obstacle: a goal-side root that is
            // accepted without (or after giving up on) validation lets the goal tree grow outwards
            let l = crate::refspace::lvs(&b.spec);
            let s1 = b.goal_samples[1].clone();
            let far = with_kit!(kit, farthest_state(&b, &s1));
            let ob = with_kit!(kit, marginal_ball_of(&b, &s1, &far, 2.5 * l, 0.03 * l));
            for pk in Pk::ALL {
                let mut sc = b.scenario(b.world_named("goal-sample-marginally-inside", vec![ob.clone()]), b.params(pk, if pk == Pk::Prm { 1.6 } else { 0.6 }, 1.5, 0.0), &format!("C01/{kit}/goal-sample-marginally-inside/{}", pk.name()));
                sc.goal_samples = vec![s1.clone()];
                sc.goal_balls = vec![(s1.clone(), 0.01 * l)];
                out.push(sc);
            }
        }
        if prop == "C02" {
            // RRT-Connect: the goal root is rejected by the checker AND the goal sampler fails at one of
            // the following redraws (a finite list of goal configurations, a capped rejection sampler)
            for k in [1usize, 2, 3] {
                for kind in [0u8, 1] {
                    let w = b.world_named("goal-overlap", vec![b.goal_overlap.clone()]);
                    let mut sc = b.scenario(w, b.params(Pk::Connect, 1.0, 1.5, 0.0), &format!("C02/{kit}/goal-overlap/RRTConnect/root1/goal-sampler-fails@{k}/{kind}"));
                    sc.goal_root = 1;
                    sc.goal_fail_at = Some((k, kind));
                    out.push(sc);
                }
            }
        }
        if prop == "C01" || prop == "C02" {
            // ... and with the setup draw failing as well (the goal tree is empty when solve starts)
            for kind in [0u8, 1] {
                let w = b.world_named("goal-overlap", vec![b.goal_overlap.clone()]);
                let mut sc = b.scenario(w, b.params(Pk::Connect, 1.0, 1.5, 0.0), &format!("{prop}/{kit}/goal-overlap/RRTConnect/goal-sampler-fails-twice/{kind}"));
                sc.goal_fail_at = Some((0, kind));
                sc.goal_fail_from = None;
                out.push(sc.clone());
                let mut sc2 = sc;
                sc2.tag = format!("{prop}/{kit}/goal-overlap/RRTConnect/goal-sampler-fails-first-two/{kind}");
                sc2.goal_fail_at = None;
                sc2.goal_fail_from = Some((0, kind));
                out.push(sc2);
            }
        }
        if prop == "C01" || prop == "C02" {
            // two start states, the SECOND one marginally inside an obstacle: the planners plan from the first;
            // a planner that roots its search at every start must not return a path from the rejected one
            let l = crate::refspace::lvs(&b.spec);
            let extra = b.alphabet[b.sub3[1] as usize].clone();
            let far = with_kit!(kit, farthest_state(&b, &extra));
            let ob = with_kit!(kit, marginal_ball_of(&b, &extra, &far, 2.5 * l, 0.03 * l));
            for pk in Pk::ALL {
                let mut sc = b.scenario(b.world_named("second-start-marginally-inside", vec![ob.clone()]), b.params(pk, if pk == Pk::Prm { 1.6 } else { 1.0 }, 1.5, 0.0), &format!("{prop}/{kit}/second-start-marginally-inside/{}", pk.name()));
                sc.extra_starts = vec![extra.clone()];
                out.push(sc);
            }
        }
        if prop == "C01" {
            // a POINT obstacle sitting exactly on a goal sample that interpolation reaches only up to an ulp:
            // interpolate(a, b, 1) need not be b bit for bit, and the state a planner stores is b itself - the
            // state that enters the tree (and ends the path) is the one that has to have been shown to the checker
            if let Some((a, bb)) = with_kit!(kit, ulp_mismatch_pair(&b)) {
                let l = crate::refspace::lvs(&b.spec);
                for pk in Pk::ALL {
                    for sm in [1.0, 1e6] {
                        let mut sc = b.scenario(b.world_named("point-obstacle-on-the-goal-sample", vec![ObstSpec::Ball(bb.clone(), 0.0)]), b.params(pk, if pk == Pk::Prm { 1.6 } else { sm }, 2.5, 0.0), &format!("C01/{kit}/point-obstacle-on-the-goal-sample/{}x{sm}", pk.name()));
                        sc.start = a.clone();
                        sc.goal_samples = vec![bb.clone()];
                        sc.goal_balls = vec![(bb.clone(), 0.02 * l)];
                        let mut letters: Vec<crate::kit::V> = vec![a.clone(), bb.clone()];
                        letters.extend(b.sub3.iter().map(|&i| b.alphabet[i as usize].clone()));
                        sc.alphabet = letters;
                        out.push(sc);
                    }
                }
            }
            // a start the checker accepts but the space bounds reject, with a small obstacle sitting exactly
            // where the bounds would put that start if it were "repaired": whatever state heads the path has
            // been validated
            if let Some((spec, start)) = out_of_bounds_start(&b) {
                let shift = |v: &crate::kit::V| -> crate::kit::V {
                    use crate::kit::V;
                    match v {
                        V::Rv(x) => {
                            let mut x = x.clone();
                            x[0] += 0.25;
                            V::Rv(x)
                        }
                        V::So2(a) => V::So2(a + 0.125),
                        V::Cmp(c) => {
                            let mut c = c.clone();
                            if let V::Rv(x) = &mut c[0] {
                                x[0] += 0.25;
                            }
                            V::Cmp(c)
                        }
                        other => other.clone(),
                    }
                };
                let proj = shift(&start);
                for pk in Pk::ALL {
                    let w = b.world_named("obstacle-at-the-projected-start", vec![ObstSpec::Ball(proj.clone(), 0.02 * crate::refspace::lvs(&spec))]); // thinner than one step of a motion check
                    let mut sc = b.scenario(w, b.params(pk, if pk == Pk::Prm { 1.6 } else { 1.0 }, 1.5, 0.0), &format!("C01/{kit}/{}/start-outside-bounds-obstacle-at-projection", pk.name()));
                    sc.spec = spec.clone();
                    sc.start = start.clone();
                    out.push(sc);
                }
            }
        }
        if prop == "C05" {
            // a start FAR outside the bounds (2.5 units, more than any step or radius here): whatever a planner
            // roots its search at, the first segment of a returned path is one step long like every other
            if let Some((spec, start)) = out_of_bounds_start_by(&b, 2.5) {
                for pk in Pk::ALL {
                    let mut sc = b.scenario(b.world_free(), b.params(pk, if pk == Pk::Prm { 1.6 } else { 1.0 }, 1.5, 0.0), &format!("C05/{kit}/free/{}/start-far-outside-bounds", pk.name()));
                    sc.spec = spec.clone();
                    sc.start = start.clone();
                    out.push(sc);
                }
            }
        }
        if prop == "C01" {
            // two start states, the FIRST marginally inside an obstacle, the second valid: the planners plan
            // from the first, so the answer is InvalidStartState - not a path that begins with it
            let l = crate::refspace::lvs(&b.spec);
            let first = b.alphabet[b.start].clone();
            let far = with_kit!(kit, farthest_state(&b, &first));
            let ob = with_kit!(kit, marginal_ball_of(&b, &first, &far, 2.5 * l, 0.03 * l));
            for pk in Pk::ALL {
                let mut sc = b.scenario(b.world_named("first-start-marginally-inside", vec![ob.clone()]), b.params(pk, if pk == Pk::Prm { 1.6 } else { 1.0 }, 1.5, 0.0), &format!("C01/{kit}/first-start-marginally-inside/{}/second-start-valid", pk.name()));
                sc.extra_starts = vec![b.alphabet[b.sub3[1] as usize].clone()];
                out.push(sc);
            }
        }
        if prop == "C02" {
            // a start the checker accepts but the space bounds reject: the path still begins at exactly
            // that state (the planners must not "repair" the user's start)
            if let Some((spec, start)) = out_of_bounds_start(&b) {
                for pk in Pk::ALL {
                    let mut sc = b.scenario(b.world_free(), b.params(pk, if pk == Pk::Prm { 1.6 } else { 1.0 }, 1.5, 0.0), &format!("C02/{kit}/free/{}/start-outside-bounds", pk.name()));
                    sc.spec = spec.clone();
                    sc.start = start.clone();
                    out.push(sc);
                }
            }
        }
        // the start handed over in a NON-CANONICAL representation (angle + 4 pi; -q): the spaces accept such
        // states everywhere (C10), so the planners must too - steering from it is still one step long,
        // and the path still begins with exactly those bits
        if matches!(prop, "C01" | "C02" | "C03" | "C05") {
            if let Some(start) = noncanonical(&b.alphabet[b.start]) {
                for pk in Pk::ALL {
                    for (wn, w) in [("free", b.world_free()), ("subset0001", b.world_named("subset0001", vec![b.obstacles[0].clone()]))] {
                        if wn == "free" && !(thorough || prop == "C05" || prop == "C02") {
                            continue;
                        }
                        let mut sc = b.scenario(w, b.params(pk, if pk == Pk::Prm { 1.6 } else { 0.6 }, 1.5, 0.0), &format!("{prop}/{kit}/{wn}/{}/non-canonical-start", pk.name()));
                        sc.start = start.clone();
                        out.push(sc);
                    }
                }
            }
        }
        // a goal region the space bounds cut off: every goal sample lies outside the bounds (the checker
        // accepts it). Whatever a planner does with such a sample, a returned path ends INSIDE the goal
        // region - a sample "repaired" into the bounds is no longer a goal state.
        if prop == "C02" {
            if let Some((spec, goal_s)) = out_of_bounds_goal(&b) {
                for pk in Pk::ALL {
                    for sm in [1.0, 1.6] {
                        let mut sc = b.scenario(b.world_free(), b.params(pk, if pk == Pk::Prm { 1.6 } else { sm }, 1.5, 0.0), &format!("C02/{kit}/free/{}x{sm}/goal-outside-bounds", pk.name()));
                        sc.spec = spec.clone();
                        sc.goal_balls = vec![(goal_s.clone(), 0.1)];
                        sc.goal_samples = vec![goal_s.clone(), goal_s.clone()];
                        out.push(sc);
                    }
                }
            }
        }
        // RRT / RRT*: a goal sampler that also returns a state just OUTSIDE the goal region (a sampler
        // that is right in exact arithmetic and off by an ulp at the rim): every draw comes from it
        // (bias 1), and a path may only end where the goal PREDICATE holds, adopted sample or not
        if prop == "C02" {
            let rim = with_kit!(kit, rim_state(&b));
            for pk in [Pk::Rrt, Pk::Star] {
                for sm in [1.0, 1e6] {
                    for (wn, w) in [("free", b.world_free()), ("subset0001", b.world_named("subset0001", vec![b.obstacles[0].clone()]))] {
                        let mut sc = b.scenario(w, b.params(pk, sm, 1.5, 1.0), &format!("C02/{kit}/{wn}/{}x{sm}/bias1/goal-sampler-off-the-rim", pk.name()));
                        sc.goal_samples = vec![b.goal_samples[0].clone(), rim.clone(), b.goal_samples[1].clone(), b.alphabet[b.sub3[1] as usize].clone()];
                        sc.alphabet = sc.goal_samples.clone();
                        out.push(sc);
                    }
                }
            }
        }
        // RRT-Connect: the FIRST goal sample (the root setup draws) lies just outside the goal region, the next one
        // inside: a joined path ends at the goal-tree root, so the root has to satisfy the goal predicate
        if prop == "C02" {
            let rim = with_kit!(kit, rim_state(&b));
            for sm in [1.0, 1e6] {
                for (wn, w) in [("free", b.world_free()), ("subset0001", b.world_named("subset0001", vec![b.obstacles[0].clone()]))] {
                    let mut sc = b.scenario(w, b.params(Pk::Connect, sm, 1.5, 0.0), &format!("C02/{kit}/{wn}/RRTConnectx{sm}/first-goal-root-off-the-rim"));
                    sc.goal_samples = vec![rim.clone(), b.goal_samples[0].clone()];
                    sc.goal_root = 0;
                    out.push(sc);
                }
            }
        }
        // RRT*: a step far BELOW the resolution (0.02 = 0.07 L) with a rewiring radius far above it: the
        // extension is a single check step, the choose-parent / rewiring motions are not. The goal sits
        // 0.45 from the start so that short runs return paths whose edges come from choose-parent.
        if matches!(prop, "C03" | "C01") && kit != "SO3" && kit != "SE3" {
            let near_goal = with_kit!(kit, toward(&b, 0.45));
            let l = crate::refspace::lvs(&b.spec);
            let mid = with_kit!(kit, toward(&b, 0.22));
            for (wn, w) in [("free", b.world_free()), ("pebble", b.world_named("pebble", vec![ObstSpec::Ball(mid.clone(), 0.15 * l)]))] {
                let mut sc = b.scenario(w, b.params(Pk::Star, 0.02, 50.0, 0.0), &format!("{prop}/{kit}/{wn}/RRTStarx0.02/r50/tiny-step"));
                sc.goal_balls = vec![(near_goal.clone(), 0.05)];
                sc.goal_samples = vec![near_goal.clone()];
                out.push(sc);
            }
        }
        // the step is a public field: constructed and set up with a small step, raised 20-fold before solve
        // (whatever a planner derives from the step - a cached number of check points - is derived from
        // the value the field has NOW)
        if matches!(prop, "C03" | "C05") && (thorough || matches!(kit, "RealVector" | "SO2" | "Compound")) {
            for pk in Pk::ALL {
                for w in [b.world_named("subset0111", vec![b.obstacles[0].clone(), b.obstacles[1].clone(), b.obstacles[2].clone()]), b.world_free()] {
                    if !thorough && w.name == "free" {
                        continue;
                    }
                    let mut sc = b.scenario(w.clone(), b.params(pk, if prop == "C03" { 1e6 } else { 1.6 }, 2.5, 0.0), &format!("{prop}/{kit}/{}/{}/step-raised-after-setup", w.name, pk.name()));
                    sc.step_raise = if prop == "C03" { 2e7 } else { 20.0 }; // C03: constructed with a step of 0.05, i.e. one or two check points per motion
                    out.push(sc);
                }
            }
        }
        // C03: resolution far finer than the step (edges of 100 L and more). A cap on the number
        // of validity queries per motion, or any spacing derived from the step instead of L, shows
        // only here. Reduced alphabet (start + the 4-letter sub-alphabet) because one motion check
        // costs thousands of queries.
        if prop == "C03" && kit != "SE2" && kit != "SE3" && (thorough || kit != "SO3") {
            let mut letters: Vec<usize> = vec![b.start];
            letters.extend(b.sub4.iter().map(|&i| i as usize));
            let alphabet: Vec<crate::kit::V> = letters.iter().map(|&i| b.alphabet[i].clone()).collect();
            // (0.0004 on R^2 only: there the longest alphabet edge then exceeds 1000 L, so that a cap of a thousand
            // check points per motion shows as well as one of a hundred)
            let fine: &[f64] = if thorough { &[0.002, 0.0005, 0.0002] } else if kit == "RealVector" { &[0.001, 0.0004] } else { &[0.001] };
            for &f in fine {
                for pk in Pk::ALL {
                    let fine_worlds = if thorough { vec![b.world_free(), b.world_named("subset0001", vec![b.obstacles[0].clone()])] } else { vec![b.world_named("subset0001", vec![b.obstacles[0].clone()])] };
                    for w in fine_worlds {
                        let mut spec = b.spec.clone();
                        match &mut spec {
                            Spec::Rv { frac, .. } | Spec::So2 { frac, .. } | Spec::So3 { frac, .. } => *frac = Some(f),
                            Spec::Cmp { parts, .. } => {
                                for p in parts.iter_mut() {
                                    if let Spec::Rv { frac, .. } | Spec::So2 { frac, .. } | Spec::So3 { frac, .. } = p {
                                        *frac = Some(f)
                                    }
                                }
                            }
                            _ => {}
                        }
                        let mut sc = b.scenario(w.clone(), b.params(pk, 1e6, 2.5, 0.0), &format!("C03/{kit}/{}/{}x1e6/r2.5/fine{f}", w.name, pk.name()));
                        sc.spec = spec;
                        sc.alphabet = alphabet.clone();
                        out.push(sc);
                    }
                }
            }
        }
    }
    out
}

/// Two in-bounds states a, b, at least three motion-check steps apart, for which the REAL space's
/// `interpolate(a, b, 1.0)` is not b bit for bit but a state at positive distance from it (searched among
/// the alphabet and nudged copies of its letters; None if this space's interpolation is exact on all of them).
fn ulp_mismatch_pair<K: Kit>(b: &Base) -> Option<(crate::kit::V, crate::kit::V)> {
    use crate::kit::V;
    use oxmpl::base::space::StateSpace;
    fn nudged(v: &V) -> Vec<V> {
        match v {
            V::Rv(x) => [0.3, -0.2, 0.7].iter().map(|d| { let mut y = x.clone(); y[0] += d; V::Rv(y) }).collect(),
            V::So2(a) => [0.3, -0.2, 0.7].iter().map(|d| V::So2(a + d)).collect(),
            V::So3(q) => [1.0, 2.0, 33.0].iter().map(|deg| {
                let r = crate::refspace::quat_mul(q, &crate::catalog::quat_axis_angle([0.3, -0.7, 0.2], *deg));
                let n = crate::refspace::quat_norm(&r);
                V::So3([r[0] / n, r[1] / n, r[2] / n, r[3] / n])
            }).collect(),
            V::Cmp(c) => nudged(&c[0]).into_iter().map(|f| { let mut d = c.clone(); d[0] = f; V::Cmp(d) }).collect(),
        }
    }
    let sp = K::build(&b.spec);
    let l = sp.get_longest_valid_segment_length();
    let dist = crate::scen::dist_fn::<K>(&b.spec);
    let mut cands: Vec<V> = Vec::new();
    for v in &b.alphabet {
        cands.extend(nudged(v));
    }
    cands.extend(b.alphabet.iter().cloned());
    for x in &cands {
        for y in &cands {
            let (sx, sy) = (K::from_v(x), K::from_v(y));
            if !sp.satisfies_bounds(&sx) || !sp.satisfies_bounds(&sy) {
                continue;
            }
            if !(sp.distance(&sx, &sy) > 0.35 * l) {
                continue;
            }
            let mut o = sx.clone();
            sp.interpolate(&sx, &sy, 1.0, &mut o);
            if K::bits(&o) != K::bits(&sy) && dist(&o, &sy) > 0.0 && dist(&sx, &sy) > 0.0 {
                return Some((x.clone(), y.clone()));
            }
        }
    }
    None
}

fn farthest_state<K: Kit>(b: &Base, s: &crate::kit::V) -> crate::kit::V {
    use oxmpl::base::space::StateSpace;
    let sp = K::build(&b.spec);
    let x = K::from_v(s);
    b.alphabet.iter().max_by(|p, q| sp.distance(&x, &K::from_v(p)).partial_cmp(&sp.distance(&x, &K::from_v(q))).unwrap()).unwrap().clone()
}
fn marginal_ball_of<K: Kit>(b: &Base, t: &crate::kit::V, toward: &crate::kit::V, r: f64, depth: f64) -> ObstSpec {
    crate::scen::marginal_ball::<K>(&b.spec, t, toward, r, depth)
}

/// The state at distance `d` from the start on the way to the first goal sample.
fn toward<K: Kit>(b: &Base, d: f64) -> crate::kit::V {
    use oxmpl::base::space::StateSpace;
    let sp = K::build(&b.spec);
    let s = K::from_v(&b.alphabet[b.start]);
    let g = K::from_v(&b.goal_samples[0]);
    let mut out = s.clone();
    sp.interpolate(&s, &g, d / sp.distance(&s, &g), &mut out);
    K::to_v(&out)
}

/// A state just outside the goal ball, on the way from its centre to the start.
fn rim_state<K: Kit>(b: &Base) -> crate::kit::V {
    use oxmpl::base::space::StateSpace;
    let sp = K::build(&b.spec);
    let (c, r) = &b.goal_ball;
    let c = K::from_v(c);
    let s = K::from_v(&b.alphabet[b.start]);
    let d = sp.distance(&c, &s);
    let mut out = c.clone();
    sp.interpolate(&c, &s, (r * 1.001 + 1e-9) / d, &mut out);
    K::to_v(&out)
}

/// Another representation of the same configuration (None for R^n, where there is none).
pub(crate) fn noncanonical(v: &crate::kit::V) -> Option<crate::kit::V> {
    use crate::kit::V;
    match v {
        V::Rv(_) => None,
        V::So2(a) => Some(V::So2(a + 4.0 * PI)),
        V::So3(q) => Some(V::So3([-q[0], -q[1], -q[2], -q[3]])),
        V::Cmp(c) => {
            let alt: Vec<Option<V>> = c.iter().map(noncanonical).collect();
            if alt.iter().all(|x| x.is_none()) {
                return None;
            }
            Some(V::Cmp(c.iter().zip(alt).map(|(orig, a)| a.unwrap_or_else(|| orig.clone())).collect()))
        }
    }
}

/// A bounded version of the base space whose bounds end a quarter unit short of the first goal sample.
fn out_of_bounds_goal(b: &Base) -> Option<(Spec, crate::kit::V)> {
    use crate::kit::V;
    match (&b.spec, &b.goal_samples[0]) {
        (Spec::Rv { dim, .. }, V::Rv(x)) => {
            let mut bounds = vec![(0.0, 4.0); *dim];
            bounds[0] = (0.0, x[0] - 0.25);
            Some((Spec::Rv { dim: *dim, bounds: Some(bounds), frac: None }, V::Rv(x.clone())))
        }
        (Spec::So2 { .. }, V::So2(a)) => Some((Spec::So2 { bounds: Some((-3.0, a - 0.125)), frac: None }, V::So2(*a))),
        (Spec::Cmp { parts, weights }, V::Cmp(c)) => {
            let mut parts = parts.clone();
            if let (Spec::Rv { dim, bounds, .. }, V::Rv(x)) = (&mut parts[0], &c[0]) {
                let mut nb = vec![(0.0, 4.0); *dim];
                nb[0] = (0.0, x[0] - 0.25);
                *bounds = Some(nb);
                return Some((Spec::Cmp { parts, weights: weights.clone() }, V::Cmp(c.clone())));
            }
            None
        }
        (Spec::Se2 { weight, .. }, V::Cmp(c)) => {
            if let V::Rv(x) = &c[0] {
                return Some((Spec::Se2 { weight: *weight, bounds: Some(vec![(0.0, x[0] - 0.25), (0.0, 4.0), (-PI, PI)]) }, V::Cmp(c.clone())));
            }
            None
        }
        _ => None,
    }
}

/// A bounded version of the base space together with a start just outside those bounds (None where the
/// base space has no bounds to leave).
pub(crate) fn out_of_bounds_start(b: &Base) -> Option<(Spec, crate::kit::V)> {
    out_of_bounds_start_by(b, 0.25)
}

/// ... outside by `m` (R^n coordinate units; half of it for a bare angle).
pub(crate) fn out_of_bounds_start_by(b: &Base, m: f64) -> Option<(Spec, crate::kit::V)> {
    use crate::kit::V;
    match (&b.spec, &b.alphabet[b.start]) {
        (Spec::Rv { dim, .. }, V::Rv(x)) => {
            // the box starts a quarter unit to the right of the start state
            let mut bounds = vec![(0.0, 4.0); *dim];
            bounds[0] = (x[0] + m, 4.0);
            Some((Spec::Rv { dim: *dim, bounds: Some(bounds), frac: None }, V::Rv(x.clone())))
        }
        (Spec::So2 { .. }, V::So2(a)) => Some((Spec::So2 { bounds: Some((a + 0.5 * m, 3.0)), frac: None }, V::So2(*a))),
        (Spec::Cmp { parts, weights }, V::Cmp(c)) => {
            let mut parts = parts.clone();
            if let (Spec::Rv { dim, bounds, .. }, V::Rv(x)) = (&mut parts[0], &c[0]) {
                let mut nb = vec![(0.0, 4.0); *dim];
                nb[0] = (x[0] + m, 4.0);
                *bounds = Some(nb);
                return Some((Spec::Cmp { parts, weights: weights.clone() }, V::Cmp(c.clone())));
            }
            None
        }
        (Spec::Se2 { weight, .. }, V::Cmp(c)) => {
            if let V::Rv(x) = &c[0] {
                return Some((Spec::Se2 { weight: *weight, bounds: Some(vec![(x[0] + m, 4.0), (0.0, 4.0), (-PI, PI)]) }, V::Cmp(c.clone())));
            }
            None
        }
        _ => None,
    }
}

/// C04: bounds lattice with in-bounds alphabets.
fn scenarios_c04(tier: &str) -> Vec<Scenario> {
    let thorough = tier != "quick";
    let mut out = Vec::new();
    let steps: Vec<f64> = if thorough { vec![0.3, 0.6, 1.0, 1.6, 1e6] } else { vec![0.3, 1.0, 1e6] };
    // --- R^2 boxes: the standard base already has all of Sigma inside [0,4]^2; add a tight box
    {
        let b = base_of("RealVector");
        for (nm, bounds) in [("box[0,4]", vec![(0.0, 4.0), (0.0, 4.0)]), ("tight", vec![(0.5, 3.9), (0.1, 3.4)])] {
            for &sm in &steps {
                for pk in Pk::ALL {
                    let mut sc = b.scenario(b.world_named("subset0001", vec![b.obstacles[0].clone()]), b.params(pk, sm, 1.5, 0.0), &format!("C04/RealVector/{nm}/{}x{sm}", pk.name()));
                    sc.spec = Spec::Rv { dim: 2, bounds: Some(bounds.clone()), frac: None };
                    out.push(sc);
                }
            }
        }
    }
    // --- SO(2) intervals of span < pi, = pi, > pi, touching +-pi; all Sigma states inside
    {
        let so2 = |lo: f64, hi: f64, letters: Vec<f64>, start: f64, goal: f64| -> (Spec, Vec<V>, V, V) {
            (Spec::So2 { bounds: Some((lo, hi)), frac: None }, letters.into_iter().map(V::So2).collect(), V::So2(start), V::So2(goal))
        };
        let cases = vec![
            ("span<pi", so2(-1.0, 1.5, vec![-0.9, -0.9, -0.3, 0.0, 0.4, 1.4, 1.45, 1.0, -1.0, 1.5], -0.9, 1.4)),
            ("span=pi", so2(-PI / 2.0, PI / 2.0, vec![-1.5, -1.5, -0.7, 0.0, 0.7, 1.5, 1.55, -PI / 2.0, PI / 2.0, 1.0], -1.5, 1.5)),
            ("span>pi", so2(-3.0, 3.0, vec![-2.9, -2.9, -2.0, 0.0, 2.0, 2.9, 2.95, -3.0, 3.0, 1.0], -2.9, 2.9)),
            ("touching+pi", so2(0.5, PI, vec![0.6, 0.6, 1.2, 2.0, 2.6, 3.1, PI, 0.5, 3.0, 1.8], 0.6, 3.1)),
            ("touching-pi", so2(-PI, -0.5, vec![-0.6, -0.6, -1.2, -2.0, -2.6, -3.1, -PI, -0.5, -3.0, -1.8], -0.6, -3.1)),
            ("full", so2(-PI, PI, vec![-2.9, -2.9, -2.0, 0.0, 2.0, 2.9, PI, -PI, 3.0, 1.0], -2.9, 2.9)),
        ];
        for (nm, (spec, alphabet, start, goal)) in cases {
            for &sm in &steps {
                for pk in Pk::ALL {
                    let b = base_of("SO2");
                    let mut sc = b.scenario(b.world_free(), b.params(pk, sm, 1.5, 0.0), &format!("C04/SO2/{nm}/{}x{sm}", pk.name()));
                    sc.spec = spec.clone();
                    sc.alphabet = alphabet.clone();
                    sc.start = start.clone();
                    sc.goal_balls = vec![(goal.clone(), 0.06)];
                    sc.goal_samples = vec![goal.clone(), goal.clone()];
                    out.push(sc);
                }
            }
        }
    }
    // --- a goal region that OVERHANGS the bound (every goal sample is inside): a state the goal predicate
    // accepts is still subject to the bounds. Step 0.35 from -2.9 across the excluded arc lands at 3.033.
    {
        let b = base_of("SO2");
        for pk in Pk::ALL {
            for sm in [0.35, 0.36] {
                // (absolute step: the base's unit is not 1)
                let mut sc = b.scenario(b.world_free(), b.params(pk, sm / b.unit, 1.5, 0.0), &format!("C04/SO2/span>pi-goal-overhang/{}x{sm}", pk.name()));
                sc.spec = Spec::So2 { bounds: Some((-3.0, 3.0)), frac: None };
                sc.alphabet = [-2.9, -2.9, -2.0, 0.0, 2.0, 2.9, 2.95, -3.0, 3.0, 1.0].iter().map(|a| V::So2(*a)).collect();
                sc.start = V::So2(-2.9);
                sc.goal_balls = vec![(V::So2(2.95), 0.1)];
                sc.goal_samples = vec![V::So2(2.95), V::So2(2.9)];
                out.push(sc);
            }
        }
    }
    // --- SO(3) cones
    {
        use crate::catalog::quat_axis_angle as qa;
        let z = [0.0, 0.0, 1.0];
        let x = [1.0, 0.0, 0.0];
        let y = [0.0, 1.0, 0.0];
        let id = [0.0, 0.0, 0.0, 1.0];
        for (nm, centre, radius, scale) in [
            ("cone(I,0.5)", id, 0.5, 0.45f64),
            ("cone(I,1.0)", id, 1.0, 0.95),
            ("cone(I,pi/2)", id, PI / 2.0, 1.5),
            ("cone(I,2.0)", id, 2.0, 1.95),
            ("cone(I,2.5)", id, 2.5, 2.45),
            ("cone(Rx90,1.0)", qa(x, 90.0), 1.0, 0.95),
            // a centre with every quaternion component non-zero (a hand-written product shows its signs only there)
            ("cone(Rdiag100,1.2)", qa([1.0, 1.0, 0.3], 100.0), 1.2, 1.15),
        ] {
            // alphabet: rotations about x, y, z by +-scale (inside the cone around its centre)
            let c = centre;
            let rot = |ax: [f64; 3], ang: f64| V::So3(crate::refspace::quat_mul(&c, &qa(ax, ang.to_degrees())));
            let alphabet = vec![
                rot(z, -scale),
                rot(z, -scale),
                rot(z, -scale * 0.5),
                V::So3(c),
                rot(z, scale * 0.5),
                rot(z, scale),
                rot(z, scale * 0.98),
                rot(x, scale),
                rot(x, -scale),
                rot(y, scale),
            ];
            for &sm in &steps {
                for pk in Pk::ALL {
                    let b = base_of("SO3");
                    let mut sc = b.scenario(b.world_free(), b.params(pk, sm, 1.5, 0.0), &format!("C04/SO3/{nm}/{}x{sm}", pk.name()));
                    sc.spec = Spec::So3 { bounds: Some((centre, radius)), frac: None };
                    sc.alphabet = alphabet.clone();
                    sc.start = alphabet[0].clone();
                    sc.goal_balls = vec![(alphabet[5].clone(), 0.05)];
                    sc.goal_samples = vec![alphabet[5].clone(), alphabet[6].clone()];
                    out.push(sc);
                }
            }
        }
    }
    // --- the same bounded SO(2) / SO(3) scenarios at the coarsest resolution (fraction 1): a motion shorter
    // than one check step is validated at its end state only, so a guard that lives inside the motion check
    // has to cover that shortcut too
    {
        let coarse: Vec<Scenario> = out
            .iter()
            .filter(|s| (s.kit == "SO2" || s.kit == "SO3") && s.tag.contains("x0.3"))
            .map(|s| {
                let mut c = s.clone();
                match &mut c.spec {
                    Spec::So2 { frac, .. } | Spec::So3 { frac, .. } => *frac = Some(1.0),
                    _ => {}
                }
                c.tag = format!("{}/coarse", s.tag);
                c
            })
            .collect();
        out.extend(coarse);
    }
    // --- compounds / SE(2) with a bounded angular interval, SE(3) box
    {
        for kit in ["Compound", "SE2"] {
            for (nm, lo, hi) in [("ang[-1,1.5]", -1.0, 1.5), ("ang[-3,3]", -3.0, 3.0)] {
                let b = base_of(kit);
                let a = |x: f64, y: f64, t: f64| V::Cmp(vec![V::Rv(vec![x, y]), V::So2(t)]);
                let (t0, t1) = (lo + 0.1, hi - 0.1);
                let alphabet = vec![a(0.5, 2.0, t0), a(0.5, 2.0, t0), a(1.5, 2.0, t0), a(1.5, 2.0, t1), a(2.5, 2.0, 0.0), a(3.5, 2.0, t1), a(3.5, 2.0, t1 - 0.05), a(2.5, 3.4, lo), a(0.5, 2.0, hi)];
                for &sm in &steps {
                    for pk in Pk::ALL {
                        let mut sc = b.scenario(b.world_free(), b.params(pk, sm, 1.5, 0.0), &format!("C04/{kit}/{nm}/{}x{sm}", pk.name()));
                        sc.spec = if kit == "SE2" {
                            Spec::Se2 { weight: 0.5, bounds: Some(vec![(0.0, 4.0), (0.0, 4.0), (lo, hi)]) }
                        } else {
                            Spec::Cmp { parts: vec![Spec::Rv { dim: 2, bounds: Some(vec![(0.0, 4.0), (0.0, 4.0)]), frac: None }, Spec::So2 { bounds: Some((lo, hi)), frac: None }], weights: vec![1.0, 0.5] }
                        };
                        sc.alphabet = alphabet.clone();
                        sc.start = alphabet[0].clone();
                        sc.goal_balls = vec![(alphabet[5].clone(), 0.1)];
                        sc.goal_samples = vec![alphabet[5].clone(), alphabet[6].clone()];
                        out.push(sc);
                    }
                }
            }
        }
        // an obstacle on the FAR edge of the excluded yaw arc: a motion across the seam (both ends inside the
        // interval) enters the excluded arc and is blocked only after it; a planner that keeps the last valid
        // state of a blocked motion keeps a state outside the bounds, one step away from the goal region
        for kit in ["Compound", "SE2"] {
            let b = base_of(kit);
            let a = |x: f64, y: f64, t: f64| V::Cmp(vec![V::Rv(vec![x, y]), V::So2(t)]);
            let alphabet = vec![a(0.5, 2.0, 2.9), a(0.5, 2.0, 2.9), a(0.5, 2.0, -2.9), a(1.0, 2.0, 2.95), a(1.0, 2.0, 2.9), a(1.5, 2.0, 0.0), a(0.5, 2.5, -2.95), a(2.5, 2.0, 2.0)];
            for &sm in &[1.0, 1e6] {
                for pk in Pk::ALL {
                    let mut sc = b.scenario(b.world_named("far-edge-of-excluded-arc-blocked", vec![ObstSpec::Arc(-3.13, -2.97)]), b.params(pk, sm, 1.5, 0.0), &format!("C04/{kit}/ang[-3,3]/far-edge-blocked/{}x{sm}", pk.name()));
                    sc.spec = if kit == "SE2" {
                        Spec::Se2 { weight: 0.5, bounds: Some(vec![(0.0, 4.0), (0.0, 4.0), (-3.0, 3.0)]) }
                    } else {
                        Spec::Cmp { parts: vec![Spec::Rv { dim: 2, bounds: Some(vec![(0.0, 4.0), (0.0, 4.0)]), frac: None }, Spec::So2 { bounds: Some((-3.0, 3.0)), frac: None }], weights: vec![1.0, 0.5] }
                    };
                    sc.alphabet = alphabet.clone();
                    sc.start = alphabet[0].clone();
                    sc.goal_balls = vec![(alphabet[3].clone(), 0.1)];
                    sc.goal_samples = vec![alphabet[3].clone(), alphabet[4].clone()];
                    out.push(sc);
                }
            }
        }
        let b = base_of("SE3");
        for &sm in &steps {
            for pk in Pk::ALL {
                out.push(b.scenario(b.world_free(), b.params(pk, sm, 1.5, 0.0), &format!("C04/SE3/box/{}x{sm}", pk.name())));
            }
        }
    }
    out
}

fn path_json<K: Kit>(p: &[K::S]) -> Value {
    json!(p.iter().map(|s| K::to_v(s).json()).collect::<Vec<_>>())
}

fn split_json() -> Value {
    let k = crate::explore::SPLIT.with(|s| s.get());
    if k == crate::explore::PRIOR_LIFE {
        json!("prior-life")
    } else if k == crate::explore::PRIOR_LIFE_B {
        json!("prior-life-other-checker")
    } else {
        json!(k)
    }
}

fn replay_json<K: Kit>(prop: &str, tier: &str, idx: usize, sc: &Scenario, seq: &[u8], call: usize, path: Option<&[K::S]>, extra: Value) -> Value {
    if let Some(d) = crate::props_deep::current() {
        return json!({"kind": "deep", "prop": prop, "tier": tier, "deep": d, "call": call, "scenario": sc.json(), "path": path.map(|p| path_json::<K>(p)), "detail": extra});
    }
    json!({
        "kind": "paths", "prop": prop, "tier": tier, "scenario_index": idx, "seq": seq, "call": call, "split": split_json(),
        "scenario": sc.json(), "path": path.map(|p| path_json::<K>(p)), "detail": extra,
    })
}

/// Applies the oracle of `prop` to one executed history.
pub fn judge<K: Kit>(prop: &str, tier: &str, idx: usize, sc: &Scenario, seq: &[u8], r: Result<(Rig<K>, Exec<K>), Caught>, rep: &mut Report) {
    let pk = sc.params.pk;
    let kit = sc.kit;
    let (rig, exec) = match r {
        Ok(x) => x,
        Err(Caught::Panic(msg)) => {
            // unwinding out of a well-formed run is C08's clause; every path check reports it too
            rep.violate(format!("{prop}|{}|{kit}|panic:{}", pk.name(), short(&msg)), format!("planner call unwound: {msg}"), || {
                replay_json::<K>(prop, tier, idx, sc, seq, 0, None, json!({"panic": msg}))
            });
            return;
        }
        Err(Caught::Harness(msg)) => {
            rep.engine_error(format!("harness panic in {}: {msg}", sc.tag));
            return;
        }
        Err(Caught::WorkCap(n)) => {
            rep.engine_error(format!("work cap hit ({n}) in {prop} scenario {}", sc.tag));
            return;
        }
        Err(Caught::ScriptExhausted) => {
            rep.engine_error(format!("script exhausted (logical-clock seam drift) in {}", sc.tag));
            return;
        }
    };
    let start_ok_p1 = rig.world.free(&rig.start);
    for (ci, (res, _used)) in exec.calls.iter().enumerate() {
        // which problem does this call answer?
        let alt = exec.alt.as_ref().filter(|(at, _, _)| ci >= *at);
        let start_ok = match alt {
            Some((_, s2, _)) => rig.world.free(s2),
            None => start_ok_p1,
        };
        if alt.is_some() {
            rep.count("replaced_problem_calls", 1);
        }
        match res {
            Err(e) => {
                rep.count(&format!("result_{}", err_name(e)), 1);
                if prop == "C01" && !start_ok && *e != oxmpl::base::error::PlanningError::InvalidStartState {
                    // an invalid start must be *reported*; only flagged when the planner was otherwise ready
                    let ready = !(pk == Pk::Prm && *e == oxmpl::base::error::PlanningError::UnsampledStateSpace);
                    if ready {
                        rep.violate(format!("C01|{}|invalid-start-not-reported:{}", pk.name(), err_name(e)), format!("start rejected by the checker but solve returned {}", err_name(e)), || {
                            replay_json::<K>(prop, tier, idx, sc, seq, ci, None, json!({}))
                        });
                    }
                }
            }
            Ok(path) => {
                rep.count("paths_returned", 1);
                rep.max("max_path_len", path.len() as u64);
                rep.outcomes.insert(crate::report::h128(&path.iter().flat_map(|s| K::bits(s)).collect::<Vec<_>>()));
                rep.sample(|| json!({"scenario": sc.tag, "seq": seq, "path": path_json::<K>(path)}));
                match prop {
                    "C01" => c01(tier, idx, sc, seq, ci, &rig, path, start_ok, rep),
                    "C02" => match alt {
                        Some((_, s2, g2)) => c02(tier, idx, sc, seq, ci, &rig, path, s2, g2, rep),
                        None => c02(tier, idx, sc, seq, ci, &rig, path, &rig.start, &rig.goal, rep),
                    },
                    "C03" => c03(tier, idx, sc, seq, ci, &rig, path, rep),
                    "C04" => c04(tier, idx, sc, seq, ci, &rig, path, rep),
                    "C05" => c05(tier, idx, sc, seq, ci, &rig, path, rep),
                    _ => unreachable!(),
                }
            }
        }
    }
    if prop == "C01" && !start_ok_p1 {
        rep.count("histories_with_invalid_start", 1);
    }
}

fn short(msg: &str) -> String {
    // keep the source location (stable), drop variable text
    msg.rsplit(" @ ").next().unwrap_or(msg).to_string()
}

#[allow(clippy::too_many_arguments)]
pub(crate) fn c01<K: Kit>(tier: &str, idx: usize, sc: &Scenario, seq: &[u8], ci: usize, rig: &Rig<K>, path: &[K::S], start_ok: bool, rep: &mut Report) {
    let pk = sc.params.pk;
    if !start_ok {
        rep.violate(format!("C01|{}|ok-path-from-invalid-start", pk.name()), "a path was returned although the checker rejects the start state".to_string(), || {
            replay_json::<K>("C01", tier, idx, sc, seq, ci, Some(path), json!({}))
        });
        return;
    }
    for (i, s) in path.iter().enumerate() {
        rep.count("path_states_checked", 1);
        if !rig.world.free(s) {
            let pos = if i == 0 {
                "first".to_string()
            } else if i + 1 == path.len() {
                // distinguish the known input class: the state is a goal sample handed to the planner as a root
                let is_goal_sample = rig.goal.samples.iter().any(|g| K::same(g, s));
                if is_goal_sample && pk == Pk::Connect {
                    "last=invalid-goal-root".to_string()
                } else {
                    "last".to_string()
                }
            } else {
                "interior".to_string()
            };
            rep.violate(format!("C01|{}|invalid-state-on-path:{pos}", pk.name()), format!("path state {i} of {} is rejected by the validity checker", path.len()), || {
                replay_json::<K>("C01", tier, idx, sc, seq, ci, Some(path), json!({"index": i}))
            });
            return;
        }
    }
}

#[allow(clippy::too_many_arguments)]
fn c02<K: Kit>(tier: &str, idx: usize, sc: &Scenario, seq: &[u8], ci: usize, rig: &Rig<K>, path: &[K::S], start: &K::S, goal: &crate::seams::HGoal<K>, rep: &mut Report) {
    let pk = sc.params.pk;
    let _ = rig;
    let bad = if path.is_empty() {
        Some("empty-path")
    } else if !K::same(&path[0], start) {
        Some("first-state-not-start")
    } else if !goal.contains(path.last().unwrap()) {
        Some("last-state-not-in-goal")
    } else {
        None
    };
    rep.count("paths_checked", 1);
    if let Some(b) = bad {
        rep.violate(format!("C02|{}|{b}", pk.name()), format!("returned path: {b}"), || replay_json::<K>("C02", tier, idx, sc, seq, ci, Some(path), json!({})));
    }
}

#[allow(clippy::too_many_arguments)]
pub(crate) fn c03<K: Kit>(tier: &str, idx: usize, sc: &Scenario, seq: &[u8], ci: usize, rig: &Rig<K>, path: &[K::S], rep: &mut Report) {
    let pk = sc.params.pk;
    let log = rig.world.log.borrow();
    for i in 0..path.len().saturating_sub(1) {
        let (a, b) = (&path[i], &path[i + 1]);
        let cov = edge_covered(rig, &log, a, b);
        rep.count("edges_checked", 1);
        rep.count("on_segment_queries", cov.on_segment_queries as u64);
        if cov.b_accepted {
            rep.count("edges_whose_end_state_was_queried_bitwise", 1);
        }
        if !cov.ok {
            let why = "gap-longer-than-L";
            rep.violate(format!("C03|{}|{why}", pk.name()), format!("segment {i}->{} of a returned path: {why} (worst gap {:.6}, L {:.6})", i + 1, cov.worst_gap, rig.lvs()), || {
                replay_json::<K>("C03", tier, idx, sc, seq, ci, Some(path), json!({"edge": i, "worst_gap": cov.worst_gap, "L": rig.lvs()}))
            });
            return;
        }
        let (m, longest) = classify_motion(rig, a, b);
        match m {
            Motion::MustReject => {
                rep.violate(format!("C03|{}|invalid-stretch>=L", pk.name()), format!("segment {i}->{} crosses an invalid stretch of length {longest:.6} >= L {:.6}", i + 1, rig.lvs()), || {
                    replay_json::<K>("C03", tier, idx, sc, seq, ci, Some(path), json!({"edge": i, "stretch": longest}))
                });
                return;
            }
            Motion::Either => rep.count("edges_grey_zone", 1),
            Motion::MustAccept => rep.count("edges_clear", 1),
        }
    }
}

#[allow(clippy::too_many_arguments)]
pub(crate) fn c04<K: Kit>(tier: &str, idx: usize, sc: &Scenario, seq: &[u8], ci: usize, rig: &Rig<K>, path: &[K::S], rep: &mut Report) {
    let pk = sc.params.pk;
    for (i, s) in path.iter().enumerate() {
        rep.count("path_states_checked", 1);
        if !in_bounds_ref(rig, s) {
            let class = bounds_class(&sc.spec);
            rep.violate(format!("C04|{}|{}|out-of-bounds|{class}", pk.name(), sc.kit), format!("path state {i} violates the space bounds ({class})"), || {
                replay_json::<K>("C04", tier, idx, sc, seq, ci, Some(path), json!({"index": i, "state": K::to_v(s).json()}))
            });
            return;
        }
    }
}

/// Input class of a bounds setting, used in finding keys.
pub fn bounds_class(spec: &Spec) -> String {
    match spec {
        Spec::Rv { .. } => "box".into(),
        Spec::So2 { bounds, .. } => {
            let (l, u) = crate::refspace::so2_bounds(bounds);
            if u - l >= 2.0 * PI - 1e-12 {
                "angular-full".into()
            } else if u - l > PI {
                "angular-interval-span>pi".into()
            } else {
                "angular-interval-span<=pi".into()
            }
        }
        Spec::So3 { bounds, .. } => match bounds {
            None => "so3-unbounded".into(),
            Some((_, r)) if *r > PI / 2.0 => "cone-radius>pi/2".into(),
            Some(_) => "cone-radius<=pi/2".into(),
        },
        _ => {
            let (parts, _) = crate::refspace::as_parts(spec).unwrap();
            let mut v: Vec<String> = parts.iter().map(bounds_class).collect();
            v.sort();
            v.dedup();
            format!("compound[{}]", v.join(","))
        }
    }
}

#[allow(clippy::too_many_arguments)]
pub(crate) fn c05<K: Kit>(tier: &str, idx: usize, sc: &Scenario, seq: &[u8], ci: usize, rig: &Rig<K>, path: &[K::S], rep: &mut Report) {
    let pk = sc.params.pk;
    let limit = sc.params.edge_limit();
    let tau = step_tau(sc.kit);
    for i in 0..path.len().saturating_sub(1) {
        let d = rig.space.inner.distance(&path[i], &path[i + 1]);
        rep.count("edges_checked", 1);
        if d > 0.5 * limit {
            rep.count("edges_longer_than_half_limit", 1);
        }
        if !(d <= limit * (1.0 + 1e-9) + tau) {
            rep.violate(format!("C05|{}|edge-longer-than-limit", pk.name()), format!("consecutive path states {i},{} are {d} apart; limit {limit}", i + 1), || {
                replay_json::<K>("C05", tier, idx, sc, seq, ci, Some(path), json!({"edge": i, "d": d, "limit": limit}))
            });
            return;
        }
    }
}

fn run_kit<K: Kit>(prop: &'static str, tier: &'static str, scs: &[(usize, Scenario)], rep: &mut Report) {
    if scs.is_empty() {
        return;
    }
    let kit = scs[0].1.kit;
    let b = base_of(kit);
    let depth = depth_for(kit, tier);
    // every scenario carries its own alphabet (C04 replaces it); letters = all indices
    let mut shard_list: Vec<(usize, Shard)> = Vec::new();
    for (idx, sc) in scs {
        let letters: Vec<u8> = (0..sc.alphabet.len() as u8).collect();
        // the fine-resolution scenarios cost thousands of validity queries per motion: one level less
        let depth = if sc.tag.contains("/fine") && tier == "quick" { depth - 1 } else { depth };
        for sh in shards(std::slice::from_ref(sc), &letters, depth) {
            shard_list.push((*idx, sh));
        }
        if tier != "quick" && sc.alphabet.len() == b.alphabet.len() {
            // deep exploration on the 4-letter sub-alphabet
            for sh in shards(std::slice::from_ref(sc), &b.sub4, 8) {
                shard_list.push((*idx, sh));
            }
        }
    }
    let _ = letters_all(&b);
    // par_explore takes plain shards; carry the scenario index through the tag lookup
    let idx_of: std::collections::HashMap<String, usize> = scs.iter().map(|(i, s)| (s.tag.clone(), *i)).collect();
    let only: Vec<Shard> = shard_list.into_iter().map(|(_, s)| s).collect();
    let logging = prop == "C03";
    let r = par_explore::<K>(&only, logging, true, tier != "quick", prop == "C02" || prop == "C04", &|sc, seq, r, rep| {
        let idx = idx_of[&sc.tag];
        judge::<K>(prop, tier, idx, sc, seq, r, rep)
    });
    rep.merge(r);
}

pub fn run(prop: &'static str, tier: &'static str) -> i32 {
    let t0 = Instant::now();
    let all = scenarios(prop, tier);
    let mut rep = Report::new();
    rep.count("scenarios", all.len() as u64);
    // (bounded part: at most five samples per execution - see seams::CB_CAP)
    crate::seams::CB_CAP.store(if tier == "quick" { 1_000_000 } else { crate::seams::TOTAL_CB_CAP }, std::sync::atomic::Ordering::Relaxed);
    // determinism self-test: run the first history of a spread of scenarios twice
    determinism_probe(prop, &all, &mut rep);
    for kit in KITS {
        let scs: Vec<(usize, Scenario)> = all.iter().cloned().enumerate().filter(|(_, s)| s.kit == kit).collect();
        with_kit!(kit, run_kit(prop, tier, &scs, &mut rep));
    }
    let meta = CheckMeta {
        prop,
        tier,
        level: "model_checking",
        rule: "every sample sequence over the scenario's alphabet up to the depth bound is fed to the real planner (fresh instance per sequence); states = distinct final planner snapshots (bitwise, per scenario); transitions = planner iterations executed; a case is non-trivial when it is a distinct snapshot",
        exhaustive: true,
        bounds: json!({"depth_primitive_spaces": depth_for("RealVector", tier), "depth_compound_spaces": depth_for("SE2", tier), "sub_alphabet_depth": if tier == "quick" { 0 } else { 8 }, "scenarios": all.len()}),
        assumptions: vec![
            "samplers, validity checker, goal and clock are the harness's scripted seams (DESIGN 1.2); goal bias 0 so the RNG cannot influence behaviour".into(),
            "values outside the alphabets are not explored".into(),
        ],
        must_be_positive: if prop == "C02" { vec!["paths_returned"] } else { vec!["paths_returned", "deep_runs", "deep_paths"] },
    };
    // supplementary: deep seeded executions judged by the same oracle (C02's endpoints are covered by
    // the call-history exploration instead)
    crate::seams::CB_CAP.store(crate::seams::TOTAL_CB_CAP, std::sync::atomic::Ordering::Relaxed);
    if prop != "C02" {
        rep.merge(crate::props_deep::run(prop, tier));
    }
    // every path oracle compares implementation behaviour with a ground-truth prediction
    let pr = rep.get("paths_returned");
    rep.count("traces_validated", pr);
    if prop == "C02" {
        rep.merge(long_branches(tier));
    }
    if prop == "C02" {
        // history half: call sequences with replaced problems / re-setup (DESIGN C02)
        let hr = crate::props_api::explore("C02", tier);
        rep.count("api_call_sequences", hr.get("evaluations"));
        rep.merge(hr);
    }
    finish(&meta, rep, t0)
}

/// C02 on LONG solution branches: a corridor 50 units long planned with a step of 0.01, so that the branch
/// from the start to the goal has thousands of nodes (real sampler, seeded generator, goal bias 1/2). The
/// path still begins with the start, bit for bit, and ends in the goal - however long the walk back is.
fn long_branches(tier: &'static str) -> Report {
    use crate::explore::guarded;
    use crate::seams::GoalMode;
    use rayon::prelude::*;
    let b = base_of("RealVector");
    let seeds: Vec<u64> = if tier == "quick" { vec![1] } else { vec![1, 2, 3, 4] };
    let jobs: Vec<(Pk, u64)> = [Pk::Rrt, Pk::Star, Pk::Connect].iter().flat_map(|pk| seeds.iter().map(move |s| (*pk, *s))).collect();
    jobs.par_iter()
        .map(|(pk, seed)| {
            let mut rep = Report::new();
            let mut p = b.params(*pk, 0.01, 1.5, 0.5);
            p.seed = Some(*seed);
            let mut sc = b.scenario(b.world_free(), p, &format!("C02/RealVector/corridor/{}x0.01/long-branch/seed{seed}", pk.name()));
            sc.spec = Spec::Rv { dim: 2, bounds: Some(vec![(0.0, 60.0), (1.9, 2.1)]), frac: None };
            sc.goal_balls = vec![(V::Rv(vec![50.0, 2.0]), 0.5)];
            sc.goal_samples = vec![V::Rv(vec![50.0, 2.0])];
            crate::explore::watch_desc(|| format!("{{\"scenario\": {:?}}}", sc.tag));
            let run = guarded(|| {
                let mut rig = Rig::<crate::kit::Rv>::new(&sc, true);
                rig.pass_through();
                rig.goal_mode(GoalMode::Cycle);
                oxmpl::verif::clock_reset(1_000_000);
                let r = rig.drv.solve(crate::drv::iters(60_000));
                (r, rig.snapshot().node_count(), rig)
            });
            rep.count("evaluations", 1);
            match run {
                Err(Caught::Panic(m)) => rep.violate(format!("C02|{}|long-branch|panic", pk.name()), format!("solve unwound on a long branch: {m}"), || json!({"kind": "long-branch", "prop": "C02", "scenario": sc.json()})),
                Err(c) => rep.engine_error(format!("long-branch run {}: {c:?}", sc.tag)),
                Ok((Err(_), n, _)) => {
                    rep.count("long_branch_runs_without_path", 1);
                    rep.max("max_long_branch_tree_nodes", n as u64);
                }
                Ok((Ok(path), n, rig)) => {
                    rep.count("long_branch_paths", 1);
                    rep.count("paths_returned", 1);
                    rep.max("max_long_branch_path_states", path.len() as u64);
                    rep.max("max_long_branch_tree_nodes", n as u64);
                    let first_ok = path.first().map(|s| crate::kit::Rv::same(s, &rig.start)).unwrap_or(false);
                    let last_ok = path.last().map(|s| rig.goal.contains(s)).unwrap_or(false);
                    if !first_ok {
                        rep.violate(format!("C02|{}|long-branch|first-state-not-start", pk.name()), format!("a path of {} states (tree of {n} nodes) does not begin with the start state", path.len()), || json!({"kind": "long-branch", "prop": "C02", "scenario": sc.json(), "path_states": path.len(), "first": path.first().map(|s| crate::kit::Rv::to_v(s).json())}));
                    } else if !last_ok {
                        rep.violate(format!("C02|{}|long-branch|last-state-not-in-goal", pk.name()), format!("a path of {} states does not end in the goal", path.len()), || json!({"kind": "long-branch", "prop": "C02", "scenario": sc.json(), "path_states": path.len()}));
                    }
                }
            }
            rep
        })
        .reduce(Report::new, |mut a, b| {
            a.merge(b);
            a
        })
}

fn determinism_probe(prop: &str, all: &[Scenario], rep: &mut Report) {
    let stride = (all.len() / 24).max(1);
    for sc in all.iter().step_by(stride) {
        let seq: Vec<u8> = (0..3u8).map(|i| (i * 2 + 2) % sc.alphabet.len() as u8).collect();
        let a = with_kit!(sc.kit, digest_of(sc, &seq, prop == "C03"));
        let b = with_kit!(sc.kit, digest_of(sc, &seq, prop == "C03"));
        rep.count("determinism_probes", 1);
        if a != b {
            rep.engine_error(format!("nondeterministic replay in scenario {}", sc.tag));
        }
    }
}

pub fn digest_of<K: Kit>(sc: &Scenario, seq: &[u8], logging: bool) -> u128 {
    match run_history::<K>(sc, seq, logging) {
        Err(_) => 1,
        Ok((rig, exec)) => {
            let mut w: Vec<u64> = rig.snapshot().key();
            for (r, used) in &exec.calls {
                w.push(*used as u64);
                match r {
                    Ok(p) => {
                        w.push(1);
                        for s in p {
                            K::enc(s, &mut w);
                        }
                    }
                    Err(e) => w.push(100 + err_name(e).len() as u64),
                }
            }
            w.push(rig.world.calls.get());
            for (q, s, a) in rig.world.log.borrow().iter() {
                w.push(*q);
                K::enc(s, &mut w);
                w.push(*a as u64);
            }
            crate::report::h128(&w)
        }
    }
}

/// `mc replay <file>` for path-property replays.
pub fn replay(v: &Value) -> i32 {
    let prop: &'static str = Box::leak(v["prop"].as_str().unwrap().to_string().into_boxed_str());
    let tier: &'static str = Box::leak(v["tier"].as_str().unwrap().to_string().into_boxed_str());
    let idx = v["scenario_index"].as_u64().unwrap() as usize;
    let seq: Vec<u8> = v["seq"].as_array().unwrap().iter().map(|x| x.as_u64().unwrap() as u8).collect();
    let all = scenarios(prop, tier);
    let sc = &all[idx];
    let split = if v["split"] == "prior-life" { crate::explore::PRIOR_LIFE } else if v["split"] == "prior-life-other-checker" { crate::explore::PRIOR_LIFE_B } else { v["split"].as_u64().unwrap_or(0) as usize };
    let d1 = with_kit!(sc.kit, digest_of(sc, &seq, true));
    let d2 = with_kit!(sc.kit, digest_of(sc, &seq, true));
    if d1 != d2 {
        crate::report::out("ENGINE-ERROR: replay is not deterministic");
        return 2;
    }
    let mut rep = Report::new();
    with_kit!(sc.kit, replay_one(prop, tier, idx, sc, &seq, split, &mut rep));
    if rep.viol_counts.is_empty() {
        crate::report::out(&format!("replay: property {prop} holds on this history"));
        0
    } else {
        for v in &rep.violations {
            crate::report::out(&format!("replay: {} -- {}", v.key, v.what));
        }
        crate::report::out(&format!("VIOLATION property={prop} replay=(replayed)"));
        1
    }
}
fn replay_one<K: Kit>(prop: &'static str, tier: &'static str, idx: usize, sc: &Scenario, seq: &[u8], split: usize, rep: &mut Report) {
    let r = crate::explore::run_history_split::<K>(sc, seq, true, split);
    judge::<K>(prop, tier, idx, sc, seq, r, rep);
}

//! Scripted `RngCore`: the sampler under test is a deterministic function of the RNG words, so the
//! harness owns them.

use rand::RngCore;

pub struct WordRng {
    pub words: Vec<u64>,
    pub pos: usize,
    pub drawn: u64,
    /// hard cap on words drawn (rejection loops must terminate)
    pub cap: u64,
}

#[derive(Debug)]
pub struct WordsExhausted;

impl WordRng {
    pub fn new(words: Vec<u64>) -> Self {
        WordRng { words, pos: 0, drawn: 0, cap: 1 << 20 }
    }
}

impl RngCore for WordRng {
    fn next_u32(&mut self) -> u32 {
        (self.next_u64() >> 32) as u32
    }
    fn next_u64(&mut self) -> u64 {
        self.drawn += 1;
        if self.drawn > self.cap {
            std::panic::panic_any(WordsExhausted);
        }
        let w = self.words[self.pos % self.words.len()];
        self.pos += 1;
        w
    }
    fn fill_bytes(&mut self, dest: &mut [u8]) {
        for chunk in dest.chunks_mut(8) {
            let w = self.next_u64().to_le_bytes();
            chunk.copy_from_slice(&w[..chunk.len()]);
        }
    }
}

/// splitmix64 — only to generate arbitrary-looking fixed word lists (not a source of randomness
/// for any verdict: the lists are constants of the harness).
pub fn mix(i: u64) -> u64 {
    let mut z = i.wrapping_add(0x9e3779b97f4a7c15);
    z = (z ^ (z >> 30)).wrapping_mul(0xbf58476d1ce4e5b9);
    z = (z ^ (z >> 27)).wrapping_mul(0x94d049bb133111eb);
    z ^ (z >> 31)
}

/// The 64-bit word that rand 0.9 maps to the unit-interval value `u` in [0,1): value = (w >> 12) * 2^-52.
pub fn word_for_unit(u: f64) -> u64 {
    let m = (u * (1u64 << 52) as f64).floor() as u64;
    m.min((1u64 << 52) - 1) << 12
}

//! C15 (tree well-formedness), C16 (one iteration = nearest + one step), C17 (RRT* choose-parent /
//! rewiring): explicit-state BFS over the real tree planners, every transition compared with a
//! reference model of one iteration, every reached state checked against the tree invariants.

use crate::bfs::{bfs_tree, Step};
use crate::catalog::{base_of, Base, KITS};
use crate::drv::{Pk, Snap, TreeSnap};
use crate::explore::Caught;
use crate::kit::Kit;
use crate::oracles::{classify_motion, edge_covered, step_tau, Motion};
use crate::report::{finish, CheckMeta, Report};
use crate::scen::{ObstSpec, Rig, Scenario, WorldSpec};
use crate::with_kit;
use oxmpl::base::space::StateSpace;
use rayon::prelude::*;
use serde_json::{json, Value};
use std::time::Instant;

fn depth_for(kit: &str, tier: &str) -> usize {
    // thorough: one sample deeper on the two cheapest spaces; SO(3) and the compound kinds keep the quick
    // depth and get the wider world / step / radius lattices, every call-boundary position and more seeds
    let deep = matches!(kit, "RealVector" | "SO2" | "SO3");
    match (tier, deep) {
        ("quick", true) => 4,
        ("quick", false) => 3,
        (_, true) if kit != "SO3" => 5,
        (_, true) => 4,
        (_, false) => 3,
    }
}

/// Centres of two balls: at distance `d` from the start toward the first goal sample, and at distance `d`
/// from that goal sample toward the start.
fn arms_length<K: Kit>(b: &crate::catalog::Base, d: f64) -> (crate::kit::V, crate::kit::V) {
    use oxmpl::base::space::StateSpace;
    let sp = K::build(&b.spec);
    let s = K::from_v(&b.alphabet[b.start]);
    let g = K::from_v(&b.goal_samples[0]);
    let len = sp.distance(&s, &g);
    let (mut a, mut c) = (s.clone(), s.clone());
    sp.interpolate(&s, &g, d / len, &mut a);
    sp.interpolate(&g, &s, d / len, &mut c);
    (K::to_v(&a), K::to_v(&c))
}

/// The state at distance `d` from the start on the way to the first goal sample.
fn at_distance<K: Kit>(b: &crate::catalog::Base, d: f64) -> crate::kit::V {
    let sp = K::build(&b.spec);
    let s = K::from_v(&b.alphabet[b.start]);
    let g = K::from_v(&b.goal_samples[0]);
    let mut out = s.clone();
    sp.interpolate(&s, &g, d / sp.distance(&s, &g), &mut out);
    K::to_v(&out)
}

pub fn scenarios(prop: &str, tier: &str) -> Vec<Scenario> {
    let thorough = tier != "quick";
    let mut out = Vec::new();
    for kit in KITS {
        let b = base_of(kit);
        let worlds: Vec<WorldSpec> = if thorough {
            // C17 has five radii per step: the 8 obstacle subsets with an even number of obstacles (every
            // obstacle and every pair still occurs) keep its thorough tier within the hour
            let mut w = b.subset_worlds();
            w.retain(|x| x.obst.len() % 2 == 0);
            w
        } else {
            vec![b.world_free(), b.world_named("subset0001", vec![b.obstacles[0].clone()]), b.world_named("subset0110", vec![b.obstacles[1].clone(), b.obstacles[2].clone()]), b.world_named("subset1111", b.obstacles.clone())]
        };
        let planners: Vec<Pk> = match prop {
            "C17" => vec![Pk::Star],
            _ => Pk::TREES.to_vec(),
        };
        let steps: Vec<f64> = if thorough { vec![0.6, 1.0, 1e6] } else { vec![1.0, 1.6] };
        for w in &worlds {
            for &sm in &steps {
                for &pk in &planners {
                    let rms: Vec<f64> = if pk == Pk::Star {
                        if thorough || prop == "C17" {
                            vec![0.5, 1.0, 1.5, 2.5, 1e6]
                        } else {
                            vec![1.5, 2.5]
                        }
                    } else {
                        vec![1.0]
                    };
                    for &rm in &rms {
                        let roots: Vec<u8> = if pk == Pk::Connect { vec![0, 1] } else { vec![0] };
                        for &root in &roots {
                            let mut sc = b.scenario(w.clone(), b.params(pk, sm, rm, 0.0), &format!("{prop}/{kit}/{}/{}x{sm}/r{rm}/root{root}/bias0", w.name, pk.name()));
                            sc.goal_root = root;
                            out.push(sc);
                        }
                    }
                }
            }
        }
        // RRT*: a step far below the resolution with a rewiring radius far above it (see props_paths): in the
        // deep seeded runs choose-parent and rewiring edges become longer than L while extensions never do
        if prop == "C15" && planners.contains(&Pk::Star) {
            out.push(b.scenario(b.world_free(), b.params(Pk::Star, 0.02, 50.0, 0.0), &format!("{prop}/{kit}/free/RRTStarx0.02/r50/tiny-step")));
        }
        // a step far below the resolution (a motion check is a single query, and the shortcuts that go with
        // that) with obstacles whose rim is HALF a step from the start and from the goal root, on the line
        // between them: the very first extension / connect step lands inside
        if prop == "C15" || prop == "C16" {
            let (near_s, near_g) = with_kit!(kit, arms_length(&b, 0.21));
            let w = b.world_named("obstacles-at-arms-length", vec![ObstSpec::Ball(near_s, 0.2), ObstSpec::Ball(near_g, 0.2)]);
            for &pk in &planners {
                let roots: Vec<u8> = if pk == Pk::Connect { vec![0] } else { vec![0] };
                for root in roots {
                    let mut sc = b.scenario(w.clone(), b.params(pk, 0.02, 50.0, 0.0), &format!("{prop}/{kit}/obstacles-at-arms-length/{}x0.02/r50/tiny-step", pk.name()));
                    sc.goal_root = root;
                    out.push(sc);
                }
            }
        }
        // a sample whose distance from its nearest node is a hair ABOVE the step (step + 0.05 L): it is steered
        // to exactly one step like any farther sample, not adopted because "the rest is below the resolution"
        if prop == "C16" {
            let l = crate::refspace::lvs(&b.spec);
            for &pk in &planners {
                let mut sc = b.scenario(b.world_free(), b.params(pk, 1.0, 1.5, 0.0), &format!("{prop}/{kit}/free/{}x1/hair-above-the-step", pk.name()));
                let band = with_kit!(kit, at_distance(&b, sc.params.step + 0.05 * l));
                let mut letters: Vec<crate::kit::V> = vec![b.alphabet[b.start].clone()];
                letters.extend(b.sub4.iter().map(|&i| b.alphabet[i as usize].clone()));
                letters.push(band);
                sc.alphabet = letters;
                out.push(sc);
            }
        }
        // problem definitions with three start states: each tree still has ONE root (the first start for the start
        // tree); a further start state - here one the checker rejects in the obstructed world - is no tree node
        if prop == "C15" || prop == "C16" {
            for w in [b.world_free(), b.world_named("subset1111", b.obstacles.clone())] {
                for &pk in &planners {
                    let mut sc = b.scenario(w.clone(), b.params(pk, 1.0, 1.5, 0.0), &format!("{prop}/{kit}/{}/{}x1/three-starts", w.name, pk.name()));
                    let inside = match &b.obstacles[0] {
                        ObstSpec::Ball(c, _) => c.clone(),
                        _ => b.alphabet[b.sub3[2] as usize].clone(),
                    };
                    sc.extra_starts = vec![inside, b.alphabet[b.sub3[1] as usize].clone()];
                    out.push(sc);
                }
            }
        }
        // a planner object that has LIVED BEFORE: setup, several iterations on other samples, setup again
        // with the same problem - whatever a planner keeps beside its tree (tables indexed by node,
        // caches, flags) must have been reset with it; the whole BFS then runs from that object
        {
            let w = b.world_named("subset0001", vec![b.obstacles[0].clone()]);
            let n = b.alphabet.len() as u8;
            let prelives: Vec<Vec<u8>> = if thorough { vec![(0..n).rev().collect(), (0..n).collect()] } else { vec![(0..n).rev().collect()] };
            for &pk in &planners {
                for (i, pl) in prelives.iter().enumerate() {
                    let rms: Vec<f64> = if pk == Pk::Star { vec![1.5, 2.5] } else { vec![1.0] };
                    for rm in rms {
                        let mut sc = b.scenario(w.clone(), b.params(pk, 1.0, rm, 0.0), &format!("{prop}/{kit}/subset0001/{}x1/r{rm}/lived-before{i}", pk.name()));
                        sc.prelife = pl.clone();
                        out.push(sc);
                    }
                }
            }
        }
        // goal bias 1: every sample comes from the goal sampler (alphabet = goal samples)
        if prop == "C16" {
            // the goal sampler fails (once, at its k-th call): the iteration that asked it adds nothing, draws
            // nothing else instead, and the call reports an error
            for pk in [Pk::Rrt, Pk::Star] {
                for k in [0usize, 1, 2] {
                    for kind in [0u8, 1] {
                        let mut sc = b.scenario(b.world_free(), b.params(pk, 1.0, 1.5, 1.0), &format!("{prop}/{kit}/free/{}x1/bias1/goal-sampler-fails@{k}/{kind}", pk.name()));
                        sc.alphabet = sc.goal_samples.clone();
                        sc.goal_fail_at = Some((k, kind));
                        out.push(sc);
                    }
                }
            }
            for &pk in &Pk::TREES {
                // (obstructed worlds too: what happens after a goal-directed extension was blocked)
                for w in [b.world_free(), b.world_named("subset0001", vec![b.obstacles[0].clone()]), b.world_named("subset0110", vec![b.obstacles[1].clone(), b.obstacles[2].clone()])] {
                    for sm in [1.0, 0.6] {
                        let mut sc = b.scenario(w.clone(), b.params(pk, sm, 1.5, 1.0), &format!("{prop}/{kit}/{}/{}x{sm}/bias1", w.name, pk.name()));
                        sc.alphabet = sc.goal_samples.clone();
                        out.push(sc);
                    }
                }
            }
        }
    }
    // bounded spaces (angular intervals wider than pi, cones, compounds of these - the C04 lattice): an
    // extension whose steered state leaves the bounds may be dropped, but a node that IS added is still the
    // sample or the point at exactly one step toward it, and every tree invariant holds
    if prop == "C15" || prop == "C16" {
        out.extend(crate::catalog::zero_weight_scenarios(prop, &Pk::TREES));
        out.extend(crate::catalog::heavy_weight_scenarios(prop, &Pk::TREES));
        for mut sc in crate::props_paths::scenarios("C04", tier) {
            if sc.params.pk != Pk::Prm && (sc.tag.contains("x0.3") || (thorough && sc.tag.contains("x1/"))) {
                sc.tag = sc.tag.replacen("C04/", &format!("{prop}/bounded/"), 1);
                out.push(sc);
            }
        }
    }
    out
}

fn snap_json<K: Kit>(s: &Snap<K>) -> Value {
    s.json()
}

fn replay<K: Kit>(prop: &str, tier: &str, idx: usize, st: &Step<K>, extra: Value) -> Value {
    if let Some(d) = crate::props_deep::current() {
        return json!({"kind": "deep", "prop": prop, "tier": tier, "deep": d, "scenario": st.sc.json(), "post": snap_json::<K>(st.post), "detail": extra});
    }
    json!({"kind": "tree", "prop": prop, "tier": tier, "scenario_index": idx, "hist": st.hist, "letter": st.letter, "batch": st.batch,
           "scenario": st.sc.json(), "pre": snap_json::<K>(st.pre), "post": snap_json::<K>(st.post),
           "result": match st.result { Ok(p) => json!({"ok": p.iter().map(|s| K::to_v(s).json()).collect::<Vec<_>>()}), Err(e) => json!(format!("{e:?}")) },
           "detail": extra})
}

// ----------------------------------------------------------------------------------------------
// structural helpers

fn trees_of<K: Kit>(s: &Snap<K>) -> Vec<&TreeSnap<K>> {
    match s {
        Snap::Tree(t) => vec![t],
        Snap::Two(a, b) => vec![a, b],
        Snap::Roadmap(_) => vec![],
    }
}

/// nodes of `post` that are new or whose parent changed relative to `pre`
fn changed_nodes<K: Kit>(pre: &TreeSnap<K>, post: &TreeSnap<K>) -> Vec<usize> {
    (0..post.len()).filter(|&i| i >= pre.len() || pre[i].1 != post[i].1).collect()
}

// ----------------------------------------------------------------------------------------------
// C15

fn c15_tree<K: Kit>(tier: &str, idx: usize, st: &Step<K>, which: usize, pre: &TreeSnap<K>, post: &TreeSnap<K>, root: &K::S, rep: &mut Report) {
    let pk = st.sc.params.pk;
    let name = pk.name();
    let tree_name = if which == 0 { "start-tree" } else { "goal-tree" };
    let mut fail = |key: &str, what: String, rep: &mut Report| {
        rep.violate(format!("C15|{name}|{tree_name}|{key}"), what, || replay::<K>("C15", tier, idx, st, json!({"tree": which})));
    };
    let n = post.len();
    if n == 0 {
        fail("empty-tree", "tree has no root".into(), rep);
        return;
    }
    // root
    if post[0].1.is_some() || !K::same(&post[0].0, root) {
        fail("root", "node 0 is not the (parentless) root state".into(), rep);
        return;
    }
    // pre-existing node states never change
    for i in 0..pre.len().min(n) {
        if !K::same(&pre[i].0, &post[i].0) {
            fail("node-state-mutated", format!("state of existing node {i} changed"), rep);
            return;
        }
    }
    if n < pre.len() {
        fail("tree-shrank", "a planning iteration removed nodes".into(), rep);
        return;
    }
    for i in 1..n {
        match post[i].1 {
            None => {
                fail("second-root", format!("node {i} has no parent"), rep);
                return;
            }
            Some(p) if p >= n => {
                fail("parent-out-of-range", format!("node {i} has parent {p} >= {n}"), rep);
                return;
            }
            _ => {}
        }
    }
    // acyclic: from every node the root is reached in < n steps (path extraction terminates)
    for i in 0..n {
        let mut cur = i;
        let mut steps = 0;
        while let Some(p) = post[cur].1 {
            cur = p;
            steps += 1;
            if steps >= n {
                fail("cycle", format!("following parents from node {i} does not reach the root"), rep);
                return;
            }
        }
        if cur != 0 {
            fail("not-rooted", format!("node {i} reaches parentless node {cur} != 0"), rep);
            return;
        }
    }
    rep.count("path_extractions_checked", n as u64);
    // new / re-parented nodes: valid, edge validated, edge within the limit
    let limit = st.sc.params.edge_limit();
    let tau = step_tau(st.sc.kit);
    let log = st.rig.world.log.borrow();
    for i in changed_nodes::<K>(pre, post) {
        if i == 0 {
            continue;
        }
        let (s, p, _) = &post[i];
        let ps = &post[p.unwrap()].0;
        rep.count("edges_checked", 1);
        if !st.rig.world.free(s) {
            fail("invalid-node", format!("node {i} is rejected by the validity checker"), rep);
            return;
        }
        let d = st.rig.space.inner.distance(ps, s);
        if !(d <= limit * (1.0 + 1e-9) + tau) {
            fail("edge-too-long", format!("edge {}->{i} has length {d} > limit {limit}", p.unwrap()), rep);
            return;
        }
        if d == 0.0 {
            rep.count("zero_length_edges", 1);
        }
        let cov = edge_covered(st.rig, &log, ps, s);
        if !cov.ok {
            fail("edge-not-validated", format!("edge {}->{i}: accepted validity queries leave a gap of {:.6} > L {:.6}", p.unwrap(), cov.worst_gap, st.rig.lvs()), rep);
            return;
        }
        let (m, longest) = classify_motion(st.rig, ps, s);
        if m == Motion::MustReject {
            fail("edge-through-obstacle", format!("edge {}->{i} crosses an invalid stretch of {longest:.6} >= L", p.unwrap()), rep);
            return;
        }
        if i < pre.len() {
            rep.count("reparented_edges_checked", 1);
        }
    }
}

pub(crate) fn c15<K: Kit>(tier: &str, idx: usize, st: &Step<K>, rep: &mut Report) {
    rep.count("states_checked", 1);
    if st.result.is_ok() {
        rep.count("states_after_success", 1);
    } else {
        rep.count("states_after_timeout", 1);
    }
    let pre = trees_of::<K>(st.pre);
    let post = trees_of::<K>(st.post);
    let goal_root = K::from_v(&st.sc.goal_samples[st.sc.goal_root as usize]);
    for (w, (a, b)) in pre.iter().zip(post.iter()).enumerate() {
        let root = if w == 0 { &st.rig.start } else { &goal_root };
        c15_tree::<K>(tier, idx, st, w, a, b, root, rep);
    }
}

// ----------------------------------------------------------------------------------------------
// C16: reference model of one extension

const REL: f64 = 1e-12;

/// Checks that `added` (the node added to `tree` when extending toward `q`) is what one RRT
/// extension may produce, or that adding nothing was legitimate. Returns a failure key.
fn ref_extend<K: Kit>(rig: &Rig<K>, tree: &TreeSnap<K>, q: &K::S, added: Option<&(K::S, Option<usize>, f64)>, parent_must_be_nearest: bool) -> Result<(), (String, String)> {
    let sp = &rig.space.inner;
    let step = rig.sc.params.step;
    let tau = 1e-9 + step_tau(rig.sc.kit);
    let dists: Vec<f64> = tree.iter().map(|(s, _, _)| sp.distance(s, q)).collect();
    let min = dists.iter().cloned().fold(f64::INFINITY, f64::min);
    let near: Vec<usize> = (0..tree.len()).filter(|&i| dists[i] <= min * (1.0 + REL) + 1e-15).collect();
    // expected new state per nearest candidate
    let expect = |j: usize| -> K::S {
        if min > step {
            let mut x = tree[j].0.clone();
            sp.interpolate(&tree[j].0, q, step / min, &mut x);
            x
        } else {
            q.clone()
        }
    };
    match added {
        None => {
            // legitimate iff for some nearest candidate the motion is not must-accept, or the
            // steered state leaves the space bounds
            for &j in &near {
                let x = expect(j);
                if !sp.satisfies_bounds(&x) {
                    return Ok(());
                }
                let (m, _) = classify_motion(rig, &tree[j].0, &x);
                if m != Motion::MustAccept {
                    return Ok(());
                }
            }
            Err(("nothing-added-though-motion-valid".into(), format!("no node was added although the motion from the nearest node (dist {min}) toward the sample is entirely valid")))
        }
        Some((x, p, _)) => {
            let p = p.ok_or_else(|| ("new-node-without-parent".to_string(), "new node has no parent".to_string()))?;
            if parent_must_be_nearest && !near.contains(&p) {
                return Err(("parent-not-nearest".into(), format!("new node's parent {p} is at distance {} from the sample, nearest is {min}", dists.get(p).copied().unwrap_or(f64::NAN))));
            }
            // the state: the sample itself within the step, else exactly one step toward it
            if min <= step * (1.0 + REL) {
                if !K::same(x, q) {
                    // allow the far branch if min is numerically at the step
                    if !(min > step * (1.0 - REL)) {
                        return Err(("new-state-not-the-sample".into(), format!("sample is within the step (dist {min} <= {step}) but the new node is not the sample itself")));
                    }
                }
            }
            if min > step * (1.0 + REL) {
                // from SOME nearest candidate: d(near, x) = step and d(x, q) = min - step
                let ok = near.iter().any(|&j| {
                    let a = sp.distance(&tree[j].0, x);
                    let b = sp.distance(x, q);
                    (a - step).abs() <= tau + REL * step && (b - (min - step)).abs() <= tau + REL * min
                });
                if !ok {
                    return Err(("new-state-not-one-step-toward-sample".into(), format!("sample at distance {min} > step {step}: the new node is not at exactly one step from a nearest node on the shortest path toward the sample")));
                }
            }
            // the motion that justified the node must not be a must-reject
            let from: Vec<usize> = if parent_must_be_nearest { vec![p] } else { near.clone() };
            if from.iter().all(|&j| classify_motion(rig, &tree[j].0, x).0 == Motion::MustReject) {
                return Err(("node-added-through-invalid-motion".into(), "a node was added although the motion from the nearest node is invalid".into()));
            }
            Ok(())
        }
    }
}

pub(crate) fn c16<K: Kit>(tier: &str, idx: usize, st: &Step<K>, rep: &mut Report) {
    let pk = st.sc.params.pk;
    let name = pk.name();
    rep.count("traces_validated", 1);
    let mut fail = |key: String, what: String, rep: &mut Report| {
        rep.violate(format!("C16|{name}|{key}"), what, || replay::<K>("C16", tier, idx, st, json!({})));
    };
    // --- sampler call accounting (goal bias 0 / 1)
    let ds = st.cb_after[0] - st.cb_before[0]; // uniform
    let dg = st.cb_after[1] - st.cb_before[1]; // goal
    let bias = st.sc.params.bias;
    if bias <= 0.0 && dg != 0 {
        fail("goal-sampled-with-bias-0".into(), format!("{dg} goal sample(s) drawn in one iteration with goal bias 0"), rep);
        return;
    }
    if bias >= 1.0 && ds != 0 {
        fail("uniform-sampled-with-bias-1".into(), format!("{ds} uniform sample(s) drawn in one iteration with goal bias 1"), rep);
        return;
    }
    // the iteration whose goal-sampler call failed: nothing is added, nothing else is drawn, the call errs
    if let Some((k, _)) = st.sc.goal_fail_at {
        let k = k as u64;
        if st.cb_before[1] <= k && k < st.cb_after[1] {
            rep.count("iterations_with_a_failed_goal_sample", 1);
            if ds != 0 || dg != 1 {
                fail("sampled-again-after-goal-sampler-failure".into(), format!("the goal sampler failed, and the iteration drew {ds} uniform and {} further goal sample(s) instead of ending", dg - 1), rep);
            } else if st.post.key() != st.pre.key() {
                fail("tree-changed-after-goal-sampler-failure".into(), "the goal sampler failed, yet the tree changed in that iteration".into(), rep);
            } else if !matches!(st.result, Err(e) if !matches!(e, oxmpl::base::error::PlanningError::Timeout)) {
                fail("goal-sampler-failure-not-reported".into(), format!("the goal sampler failed, and solve returned {}", match st.result { Ok(p) => format!("Ok({} states)", p.len()), Err(e) => format!("{e:?}") }), rep);
            }
            return;
        }
    }
    if ds + dg != 1 {
        fail("samples-per-iteration".into(), format!("one iteration drew {} samples", ds + dg), rep);
        return;
    }
    if bias >= 1.0 {
        rep.count("bias1_iterations", 1);
    } else {
        rep.count("bias0_iterations", 1);
    }
    let q: K::S = match st.sample {
        Some(s) => s.clone(),
        None if bias >= 1.0 => st.rig.goal.samples[st.letter as usize].clone(),
        None => st.rig.alphabet[st.letter as usize].clone(),
    };
    match (st.pre, st.post) {
        (Snap::Tree(pre), Snap::Tree(post)) => {
            if post.len() > pre.len() + 1 {
                fail("more-than-one-node-added".into(), format!("{} nodes added in one iteration", post.len() - pre.len()), rep);
                return;
            }
            let added = if post.len() == pre.len() + 1 { post.last() } else { None };
            if added.is_some() {
                rep.count("nodes_added", 1);
            } else {
                rep.count("nothing_added", 1);
            }
            // RRT: the parent is the nearest node. RRT*: the parent is C17's subject; the state rule is the same.
            if let Err((k, w)) = ref_extend::<K>(st.rig, pre, &q, added, pk == Pk::Rrt) {
                fail(k, w, rep);
                return;
            }
            // success is reported exactly when the new node satisfies the goal
            let hit = added.map(|(x, _, _)| st.rig.goal.contains(x)).unwrap_or(false);
            if hit != st.result.is_ok() {
                fail("success-mismatch".into(), format!("new node in goal: {hit}, solve returned Ok: {}", st.result.is_ok()), rep);
            }
        }
        (Snap::Two(pa, pb), Snap::Two(qa, qb)) => {
            // smaller tree first, start tree on ties
            let grow_start = pa.len() <= pb.len();
            let (pre_a, pre_b, post_a, post_b) = if grow_start { (pa, pb, qa, qb) } else { (pb, pa, qb, qa) };
            if post_a.len() > pre_a.len() + 1 || post_b.len() > pre_b.len() + 1 {
                fail("more-than-one-node-per-tree".into(), "a tree gained more than one node in one iteration".into(), rep);
                return;
            }
            let add_a = if post_a.len() == pre_a.len() + 1 { post_a.last() } else { None };
            let add_b = if post_b.len() == pre_b.len() + 1 { post_b.last() } else { None };
            if add_a.is_none() && add_b.is_some() {
                fail("wrong-tree-grown-first".into(), format!("the {} tree had to be extended first but only the other tree grew", if grow_start { "start" } else { "goal" }), rep);
                return;
            }
            if let Err((k, w)) = ref_extend::<K>(st.rig, pre_a, &q, add_a, true) {
                fail(format!("first-extension:{k}"), w, rep);
                return;
            }
            match add_a {
                None => {
                    rep.count("connect_first_extension_failed", 1);
                    if st.result.is_ok() {
                        fail("success-without-extension".into(), "solve returned Ok although nothing was added".into(), rep);
                    }
                }
                Some((x, _, _)) => {
                    rep.count("nodes_added", 1);
                    if grow_start && st.rig.goal.contains(x) {
                        rep.count("connect_direct_goal_hit", 1);
                        if add_b.is_some() || st.result.is_err() {
                            fail("direct-hit-not-returned".into(), "the start tree reached the goal directly but the iteration continued".into(), rep);
                        }
                        return;
                    }
                    // exactly one extension of the other tree toward x
                    if let Err((k, w)) = ref_extend::<K>(st.rig, pre_b, x, add_b, true) {
                        fail(format!("connect-extension:{k}"), w, rep);
                        return;
                    }
                    if add_b.is_some() {
                        rep.count("nodes_added", 1);
                    }
                    let reached = add_b.map(|(y, _, _)| K::same(y, x) || st.rig.space.inner.distance(y, x) == 0.0).unwrap_or(false);
                    // Reached <=> the other tree's nearest node was within one step of x
                    let sp = &st.rig.space.inner;
                    let min_b = pre_b.iter().map(|(s, _, _)| sp.distance(s, x)).fold(f64::INFINITY, f64::min);
                    let within = min_b <= st.sc.params.step;
                    let must_ok = add_b.is_some() && within;
                    if st.result.is_ok() != must_ok {
                        // numerically-at-the-step cases are not over-specified
                        if (min_b - st.sc.params.step).abs() > REL * min_b {
                            fail("connect-success-mismatch".into(), format!("trees joined: expected {must_ok} (other tree within one step: {within}, node added: {}), solve returned Ok: {}", add_b.is_some(), st.result.is_ok()), rep);
                        }
                    }
                    if st.result.is_ok() {
                        if grow_start {
                            rep.count("connect_joined_growing_start", 1);
                        } else {
                            rep.count("connect_joined_growing_goal", 1);
                        }
                        let _ = reached;
                    }
                }
            }
        }
        _ => {}
    }
}

// ----------------------------------------------------------------------------------------------
// C17: RRT* choose-parent / rewire reference

pub(crate) fn c17<K: Kit>(tier: &str, idx: usize, st: &Step<K>, rep: &mut Report) {
    let (Snap::Tree(pre), Snap::Tree(post)) = (st.pre, st.post) else { return };
    rep.count("traces_validated", 1);
    let mut fail = |key: &str, what: String, rep: &mut Report| {
        rep.violate(format!("C17|RRTStar|{key}"), what, || replay::<K>("C17", tier, idx, st, json!({})));
    };
    let sp = &st.rig.space.inner;
    let radius = st.sc.params.radius;
    let tau = 1e-9 + step_tau(st.sc.kit);
    // invariants in every state: root cost 0; cost >= true branch length
    if post[0].2 != 0.0 {
        fail("root-cost-nonzero", format!("root cost is {}", post[0].2), rep);
        return;
    }
    let n = post.len();
    for i in 0..n {
        let mut len = 0.0;
        let mut cur = i;
        let mut guard = 0;
        while let Some(p) = post[cur].1 {
            len += sp.distance(&post[p].0, &post[cur].0);
            cur = p;
            guard += 1;
            if guard > n {
                return; // C15 reports cycles
            }
        }
        if post[i].2 < len - (1e-9 + 1e-12 * len) - tau * guard as f64 {
            fail("cost-below-branch-length", format!("node {i}: recorded cost {} < true branch length {len}", post[i].2), rep);
            return;
        }
    }
    if post.len() == pre.len() {
        // nothing added: nothing may have changed
        for i in 0..n {
            if pre[i].1 != post[i].1 || pre[i].2.to_bits() != post[i].2.to_bits() {
                fail("tree-changed-without-new-node", format!("node {i} changed although no node was added"), rep);
                return;
            }
        }
        return;
    }
    if post.len() != pre.len() + 1 {
        return; // C16 reports
    }
    let (x, p, c) = post.last().unwrap();
    let Some(p) = *p else { return };
    if p >= pre.len() {
        fail("parent-out-of-range", "new node's parent is not a pre-existing node".into(), rep);
        return;
    }
    // nearest set w.r.t. the sample
    let bias = st.sc.params.bias;
    let q: K::S = match st.sample {
        Some(s) => s.clone(),
        None if bias >= 1.0 => st.rig.goal.samples[st.letter as usize].clone(),
        None => st.rig.alphabet[st.letter as usize].clone(),
    };
    let dq: Vec<f64> = pre.iter().map(|(s, _, _)| sp.distance(s, &q)).collect();
    let minq = dq.iter().cloned().fold(f64::INFINITY, f64::min);
    let near: Vec<usize> = (0..pre.len()).filter(|&i| dq[i] <= minq * (1.0 + REL) + 1e-15).collect();
    let dx: Vec<f64> = pre.iter().map(|(s, _, _)| sp.distance(x, s)).collect();
    // neighbour classes
    let rtol = 1e-12 * radius.abs().max(1.0) + tau;
    let is_nb = |i: usize| dx[i] < radius - rtol; // surely a neighbour
    let maybe_nb = |i: usize| dx[i] < radius + rtol; // neighbour or on the rim
    let cand_sure: Vec<usize> = (0..pre.len()).filter(|&i| near.contains(&i) || is_nb(i)).collect();
    let cand_any = |i: usize| near.contains(&i) || maybe_nb(i);
    if !cand_any(p) {
        fail("parent-not-a-candidate", format!("parent {p} is neither the nearest node nor within the search radius (d = {}, radius = {radius})", dx[p]), rep);
        return;
    }
    let class_p = classify_motion(st.rig, &pre[p].0, x).0;
    if class_p == Motion::MustReject {
        fail("parent-motion-invalid", format!("new node linked to parent {p} through an invalid motion"), rep);
        return;
    }
    // bookkeeping law
    let want = pre[p].2 + dx[p];
    if (c - want).abs() > 1e-12 * want.abs().max(1.0) {
        fail("cost-bookkeeping", format!("new node cost {c} != cost(parent) {} + edge {}", pre[p].2, dx[p]), rep);
        return;
    }
    // cheapest reachable
    let mut m = f64::INFINITY;
    for &i in &cand_sure {
        let cl = if near.contains(&i) && i == p { Motion::MustAccept } else { classify_motion(st.rig, &pre[i].0, x).0 };
        let usable = cl == Motion::MustAccept || (near.contains(&i) && near.len() == 1 && cl != Motion::MustReject);
        if usable {
            m = m.min(pre[i].2 + dx[i]);
        }
    }
    if *c > m + (1e-9 + 1e-12 * m.abs()) + tau {
        fail("parent-not-cheapest", format!("new node cost {c} via parent {p}, but a validly reachable candidate gives {m}"), rep);
        return;
    }
    if !near.contains(&p) {
        rep.count("non_nearest_parent_chosen", 1);
    }
    if m.is_finite() && cand_sure.len() > 1 {
        rep.count("choose_parent_with_alternatives", 1);
    }
    // rewiring
    for i in 0..pre.len() {
        let changed = pre[i].1 != post[i].1 || pre[i].2.to_bits() != post[i].2.to_bits();
        let via = c + dx[i];
        if i == p {
            if changed {
                fail("parent-of-new-node-rewired", format!("node {i} is the new node's parent but was modified"), rep);
                return;
            }
            continue;
        }
        if changed {
            // a change may only be a re-parenting to the new node with cost via
            let ok_target = post[i].1 == Some(pre.len()) && (post[i].2 - via).abs() <= 1e-12 * via.abs().max(1.0);
            if !ok_target {
                fail("rewire-wrong-target", format!("node {i} changed to parent {:?} cost {} (expected parent {} cost {via})", post[i].1, post[i].2, pre.len()), rep);
                return;
            }
            if !maybe_nb(i) {
                fail("rewired-non-neighbour", format!("node {i} at distance {} >= radius {radius} was rewired", dx[i]), rep);
                return;
            }
            // "strictly cheaper": whichever way the edge length is computed, the new route must not
            // be definitely at least as expensive as the old one (exact ties — duplicates of one
            // state — are definite)
            let via_rev = c + sp.distance(&pre[i].0, x);
            if via.min(via_rev) >= pre[i].2 {
                fail("rewire-not-cheaper", format!("node {i} rewired although cost via new node {via} >= old cost {}", pre[i].2), rep);
                return;
            }
            if classify_motion(st.rig, x, &pre[i].0).0 == Motion::MustReject {
                fail("rewire-through-invalid-motion", format!("node {i} rewired through an invalid motion"), rep);
                return;
            }
            rep.count("rewires", 1);
            if via == pre[i].2 {
                rep.count("rewires_at_equal_cost", 1);
            }
        } else {
            // must it have been rewired?
            let strictly_cheaper = via < pre[i].2 - (1e-9 + 1e-12 * via.abs()) - tau;
            if is_nb(i) && strictly_cheaper && classify_motion(st.rig, x, &pre[i].0).0 == Motion::MustAccept {
                fail("rewire-missed", format!("node {i} (cost {}) is a neighbour, validly reachable from the new node at cost {via}, but was not rewired", pre[i].2), rep);
                return;
            }
        }
    }
}

// ----------------------------------------------------------------------------------------------
// C17, last clause: for the same samples (script) / the same seed, RRT* ends where RRT ends and its
// path is no longer.

fn path_len<K: Kit>(rig: &Rig<K>, p: &[K::S]) -> f64 {
    p.windows(2).map(|w| rig.d(&w[0], &w[1])).sum()
}

fn node_states<K: Kit>(s: &Snap<K>) -> Vec<Vec<u64>> {
    match s {
        Snap::Tree(t) => t.iter().map(|(x, _, _)| K::bits(x)).collect(),
        _ => vec![],
    }
}

/// Compares the two planners' call results pairwise (same calls, same samples).
fn versus_judge<K: Kit>(mode: &str, sc: &Scenario, detail: &dyn Fn() -> Value, rrt: &(Rig<K>, Vec<Result<Vec<K::S>, oxmpl::base::error::PlanningError>>), star: &(Rig<K>, Vec<Result<Vec<K::S>, oxmpl::base::error::PlanningError>>), rep: &mut Report) {
    rep.count("versus_runs", 1);
    rep.count("traces_validated", 1);
    if node_states::<K>(&rrt.0.snapshot()) == node_states::<K>(&star.0.snapshot()) {
        rep.count("versus_identical_node_sequences", 1);
    }
    for (i, ra) in rrt.1.iter().enumerate() {
        let Ok(pa) = ra else { continue };
        rep.count("versus_rrt_paths", 1);
        let fail = |key: &str, what: String, rep: &mut Report| {
            rep.violate(format!("C17|RRTStar|versus-rrt:{mode}|{key}"), what, || json!({"kind": "versus", "prop": "C17", "mode": mode, "scenario": sc.json(), "call": i, "detail": detail()}));
        };
        match star.1.get(i) {
            Some(Ok(pb)) => {
                let (la, lb) = (path_len(&rrt.0, pa), path_len(&star.0, pb));
                if !K::same(pa.last().unwrap(), pb.last().unwrap()) {
                    fail("different-end-state", format!("call {i}: RRT ends at {:?}, RRT* at {:?} for the same samples", K::to_v(pa.last().unwrap()).json(), K::to_v(pb.last().unwrap()).json()), rep);
                } else if !(lb <= la * (1.0 + 1e-9) + 1e-12) {
                    fail("longer-than-rrt", format!("call {i}: RRT* path length {lb} exceeds RRT's {la} for the same samples"), rep);
                } else {
                    rep.count("versus_paths_compared", 1);
                    if lb < la * (1.0 - 1e-9) {
                        rep.count("versus_star_strictly_shorter", 1);
                    }
                }
            }
            other => {
                let got = match other {
                    Some(Err(e)) => format!("{e:?}"),
                    _ => "no call".to_string(),
                };
                fail("no-path-where-rrt-has-one", format!("call {i}: RRT returned a path, RRT* returned {got} for the same samples"), rep);
            }
        }
    }
}

/// (a) every sample script over the alphabet to the depth bound, both planners fed identically
fn versus_scripts<K: Kit>(tier: &'static str, scs: &[Scenario]) -> Report {
    let shards: Vec<crate::explore::Shard> = scs.iter().flat_map(|sc| crate::explore::shards(&[sc.clone()], &(0..sc.alphabet.len() as u8).collect::<Vec<_>>(), depth_for(sc.kit, tier))).collect();
    shards
        .par_iter()
        .map(|sh| {
            let mut rep = Report::new();
            let mut sc_rrt = sh.sc.clone();
            sc_rrt.params.pk = Pk::Rrt;
            crate::explore::for_each_seq(&sh.letters, sh.depth, &sh.prefix, |seq| {
                let a = crate::explore::run_history::<K>(&sc_rrt, seq, false);
                let b = crate::explore::run_history::<K>(&sh.sc, seq, false);
                rep.count("versus_scripts", 1);
                match (a, b) {
                    (Ok((ra, ea)), Ok((rb, eb))) => {
                        let ca: Vec<_> = ea.calls.into_iter().map(|(r, _)| r).collect();
                        let cb: Vec<_> = eb.calls.into_iter().map(|(r, _)| r).collect();
                        versus_judge::<K>("script", &sh.sc, &|| json!({"samples": seq}), &(ra, ca), &(rb, cb), &mut rep);
                    }
                    (Err(Caught::Harness(m)), _) | (_, Err(Caught::Harness(m))) => rep.engine_error(format!("harness panic in versus {}: {m}", sh.sc.tag)),
                    _ => rep.count("versus_runs_that_unwound", 1), // unwinding is C08's subject
                }
            });
            rep
        })
        .reduce(Report::new, |mut a, b| {
            a.merge(b);
            a
        })
}

/// (b) real samplers and the real seeded generator: seed lattice x budgets x bias, whole executions
fn versus_seeded<K: Kit>(tier: &'static str, scs: &[Scenario]) -> Report {
    let thorough = tier != "quick";
    let seeds: u64 = if thorough { 1024 } else { 96 };
    let budgets: &[usize] = if thorough { &[4, 16, 64, 200] } else { &[6, 40] };
    let jobs: Vec<(Scenario, u64)> = scs.iter().flat_map(|sc| (0..seeds).map(move |s| (sc.clone(), s))).collect();
    jobs.par_iter()
        .map(|(sc0, seed)| {
            let mut rep = Report::new();
            for bias in [0.0, 0.05, 0.4, 1.0] {
                for goal_rng in [false, true] {
                    let run = |pk: Pk| {
                        let mut sc = sc0.clone();
                        sc.params.pk = pk;
                        sc.params.bias = bias;
                        sc.params.seed = Some(*seed);
                        crate::explore::guarded(|| {
                            let mut rig = Rig::<K>::new(&sc, true);
                            rig.pass_through();
                            rig.goal_mode(if goal_rng { crate::seams::GoalMode::Rng } else { crate::seams::GoalMode::Cycle });
                            let mut calls = Vec::new();
                            for &n in budgets {
                                oxmpl::verif::clock_reset(1_000_000);
                                calls.push(rig.drv.solve(crate::drv::iters(n)));
                            }
                            (rig, calls)
                        })
                    };
                    rep.count("versus_seeded_runs", 1);
                    match (run(Pk::Rrt), run(Pk::Star)) {
                        (Ok(a), Ok(b)) => versus_judge::<K>("seeded", sc0, &|| json!({"seed": seed, "goal_bias": bias, "goal_sampler_uses_rng": goal_rng, "budgets": budgets}), &a, &b, &mut rep),
                        (Err(Caught::Harness(m)), _) | (_, Err(Caught::Harness(m))) => rep.engine_error(format!("harness panic in seeded versus {}: {m}", sc0.tag)),
                        _ => rep.count("versus_runs_that_unwound", 1),
                    }
                }
            }
            rep
        })
        .reduce(Report::new, |mut a, b| {
            a.merge(b);
            a
        })
}

fn versus_kit<K: Kit>(tier: &'static str, scs: &[Scenario]) -> Report {
    let mut rep = versus_scripts::<K>(tier, scs);
    rep.merge(versus_seeded::<K>(tier, scs));
    rep
}

/// Scenario roots of the RRT-versus-RRT* comparison: worlds x steps x radii per space.
fn versus_scenarios(tier: &str) -> Vec<Scenario> {
    let thorough = tier != "quick";
    let mut out = Vec::new();
    for kit in KITS {
        let b = base_of(kit);
        let worlds: Vec<WorldSpec> = if thorough { b.subset_worlds() } else { vec![b.world_free(), b.world_named("subset0001", vec![b.obstacles[0].clone()]), b.world_named("subset0110", vec![b.obstacles[1].clone(), b.obstacles[2].clone()])] };
        for w in &worlds {
            for &(sm, rm) in if thorough { &[(0.6, 2.5), (1.0, 1.5), (1.0, 2.5), (1.6, 1.0), (0.6, 1e6)][..] } else { &[(1.0, 2.5), (0.6, 1.5)][..] } {
                out.push(b.scenario(w.clone(), b.params(Pk::Star, sm, rm, 0.0), &format!("C17/versus/{kit}/{}/x{sm}/r{rm}", w.name)));
            }
        }
    }
    out
}

// ----------------------------------------------------------------------------------------------
// C16, goal bias strictly between 0 and 1: the coin comes from the planner's private StdRng and
// cannot be scripted, so this clause is an enumerated-seed audit (DESIGN 9.2): for every seed of a
// lattice the real planner runs N iterations in a world whose goal is sealed off (so no call ends
// early) with the real samplers; the seams record, per iteration, whether the goal sampler or the
// uniform sampler was asked. Judged: one sample per iteration; overall goal frequency within 6
// sigma of p; the per-run goal counts have binomial variance (a counter-based "every k-th
// iteration" schedule has none); consecutive draws are uncorrelated.

fn bias_audit_kit<K: Kit>(tier: &'static str) -> Report {
    let thorough = tier != "quick";
    let b = base_of(K::NAME);
    let seeds: u64 = if thorough { 4096 } else { 1024 };
    let n_iter: usize = 64;
    let world = b.world_named("goal-sealed", vec![b.seal_goal.clone()]);
    let mut rep = Report::new();
    for &pk in &Pk::TREES {
        for p in [0.05, 0.5, 0.9] {
            for goal_rng in [false, true] {
                let per_seed: Vec<Result<(u64, u64, u64, u64, bool), String>> = (0..seeds)
                    .into_par_iter()
                    .map(|seed| {
                        let mut pr = b.params(pk, 0.6, 1.5, p);
                        pr.seed = Some(seed);
                        let sc = b.scenario(world.clone(), pr, &format!("C16/bias-audit/{}/{}/p{p}", b.kit, pk.name()));
                        let r = crate::explore::guarded(|| {
                            let mut rig = Rig::<K>::new(&sc, true);
                            rig.pass_through();
                            rig.logging(true);
                            rig.goal_mode(if goal_rng { crate::seams::GoalMode::Rng } else { crate::seams::GoalMode::Cycle });
                            let g0 = rig.goal.calls.get();
                            let u0 = rig.space.calls.get();
                            let g_log0 = rig.goal.sample_log.borrow().len();
                            oxmpl::verif::clock_reset(1_000_000);
                            let res = rig.drv.solve(crate::drv::iters(n_iter));
                            let g = (rig.goal.calls.get() - g0) as u64;
                            let u = (rig.space.calls.get() - u0) as u64;
                            // order of draws: merge the two logs by their global sequence numbers
                            let mut order: Vec<(u64, bool)> = rig.goal.sample_log.borrow()[g_log0..].iter().map(|(q, _)| (*q, true)).collect();
                            order.extend(rig.space.log.borrow().iter().map(|(q, _)| (*q, false)));
                            order.sort();
                            let gg = order.windows(2).filter(|w| w[0].1 && w[1].1).count() as u64;
                            let g_first = order.iter().take(order.len().saturating_sub(1)).filter(|x| x.1).count() as u64;
                            (g, u, gg, g_first, res.is_ok())
                        });
                        r.map_err(|c| format!("{c:?}"))
                    })
                    .collect();
                let tag = format!("{}|p={p}|goal-sampler-uses-rng={goal_rng}", pk.name());
                let mut tot_g = 0u64;
                let mut tot = 0u64;
                let mut counts: Vec<f64> = Vec::new();
                let (mut gg, mut gfirst) = (0u64, 0u64);
                let mut bad: Option<String> = None;
                for (seed, r) in per_seed.iter().enumerate() {
                    match r {
                        Ok((g, u, pairs, gf, ok)) => {
                            if *ok {
                                bad = Some(format!("seed {seed}: solve returned a path although the goal is sealed off"));
                            }
                            if g + u != n_iter as u64 {
                                rep.violate(format!("C16|{}|bias-audit|samples-per-iteration", pk.name()), format!("{tag}: seed {seed}: {} sampler calls in {n_iter} iterations (goal {g}, uniform {u})", g + u), || json!({"kind": "bias-audit", "planner": pk.name(), "space": b.kit, "p": p, "seed": seed}));
                            }
                            tot_g += g;
                            tot += g + u;
                            counts.push(*g as f64);
                            gg += pairs;
                            gfirst += gf;
                        }
                        Err(e) => bad = Some(format!("seed {seed}: {e}")),
                    }
                }
                if let Some(m) = bad {
                    rep.engine_error(format!("bias audit {tag} on {}: {m}", b.kit));
                    continue;
                }
                rep.count("bias_audit_runs", seeds);
                rep.count("bias_audit_coin_flips", tot);
                rep.count("traces_validated", seeds);
                let f = tot_g as f64 / tot as f64;
                let sigma = (p * (1.0 - p) / tot as f64).sqrt();
                let detail = |extra: Value| json!({"kind": "bias-audit", "planner": pk.name(), "space": b.kit, "p": p, "goal_sampler_uses_rng": goal_rng, "seeds": seeds, "iterations": n_iter, "observed": extra});
                if (f - p).abs() > 6.0 * sigma {
                    rep.violate(format!("C16|{}|bias-audit|frequency", pk.name()), format!("{tag}: goal sampler asked in {tot_g} of {tot} iterations = {f:.5}, more than 6 sigma ({:.5}) from the configured bias", 6.0 * sigma), || detail(json!({"frequency": f})));
                }
                let mean = counts.iter().sum::<f64>() / counts.len() as f64;
                let var = counts.iter().map(|c| (c - mean) * (c - mean)).sum::<f64>() / (counts.len() as f64 - 1.0);
                let want_var = n_iter as f64 * p * (1.0 - p);
                let ratio = var / want_var;
                // relative std of a variance estimate over S runs ~ sqrt(2/S): 0.044 (S=1024), 0.022 (S=4096)
                let tol = 7.0 * (2.0 / seeds as f64).sqrt();
                if !(ratio > 1.0 - tol && ratio < 1.0 + tol) {
                    rep.violate(format!("C16|{}|bias-audit|variance", pk.name()), format!("{tag}: per-run goal counts have variance {var:.3}, binomial variance is {want_var:.3} (ratio {ratio:.3}): the draws are not independent coin flips with probability p"), || detail(json!({"variance_ratio": ratio})));
                }
                // P(goal at i+1 | goal at i) ~ p
                if gfirst > 0 {
                    let c = gg as f64 / gfirst as f64;
                    let s2 = (p * (1.0 - p) / gfirst as f64).sqrt();
                    if (c - p).abs() > 6.0 * s2 {
                        rep.violate(format!("C16|{}|bias-audit|serial-dependence", pk.name()), format!("{tag}: P(goal | previous draw was goal) = {c:.5}, more than 6 sigma ({:.5}) from p", 6.0 * s2), || detail(json!({"conditional": c})));
                    }
                }
                rep.max("max_bias_audit_deviation_in_sigma_x100", ((f - p).abs() / sigma * 100.0) as u64);
            }
        }
    }
    rep
}

// ----------------------------------------------------------------------------------------------
// C15 under a deadline that passes in the middle of an iteration: for every short sample sequence
// and EVERY callback index of its execution the logical clock is jumped past the deadline inside that
// callback (one deviation per execution). Whatever the planner does with the interrupted iteration,
// the tree it leaves behind must satisfy the invariants - an edge whose motion check was cut short
// must not be in it.

fn c15_landings<K: Kit>(tier: &'static str, idx: usize, sc: &Scenario, rep: &mut Report) {
    use crate::seams;
    let b = base_of(sc.kit);
    let depth = if tier == "quick" { 2 } else { 3 };
    crate::explore::for_each_seq(&b.sub4, depth, &[], |seq| {
        let refrun = crate::explore::guarded(|| {
            let mut rig = Rig::<K>::new(sc, true);
            let base = seams::seq_now();
            rig.space.push_script(seq);
            let _ = rig.drv.solve(crate::drv::iters(seq.len()));
            (base, seams::seq_now())
        });
        let Ok((base, n)) = refrun else { return };
        for j in base..n {
            c15_one_landing::<K>(tier, idx, sc, seq, j, rep);
        }
    });
}

fn c15_one_landing<K: Kit>(tier: &'static str, idx: usize, sc: &Scenario, seq: &[u8], j: u64, rep: &mut Report) {
    use crate::seams;
    crate::explore::watch_desc(|| format!("{{\"scenario\": {:?}, \"samples\": {:?}, \"deadline_lands_in_callback\": {j}}}", sc.tag, seq));
    crate::props_deep::set_current(Some(json!({"mode": "deadline-landing", "scenario_index": idx, "samples": seq, "landing_callback": j})));
    let run = crate::explore::guarded(|| {
        let mut rig = Rig::<K>::new(sc, true);
        rig.logging(true);
        let pre = rig.snapshot();
        oxmpl::verif::clock_reset(0);
        seams::set_landing(j);
        let mut script = seq.to_vec();
        script.extend_from_slice(&[seq[0]; 3]);
        rig.space.push_script(&script);
        let cb_before = seams::cb_counts();
        let r = rig.drv.solve(std::time::Duration::from_secs(1));
        let cb_after = seams::cb_counts();
        let post = rig.snapshot();
        (rig, pre, post, r, cb_before, cb_after)
    });
    match run {
        Err(Caught::Panic(msg)) => {
            let loc = msg.rsplit(" @ ").next().unwrap_or("").to_string();
            rep.violate(format!("C15|{}|panic:{loc}", sc.params.pk.name()), format!("planner call unwound: {msg}"), || json!({"kind": "deep", "prop": "C15", "tier": tier, "deep": crate::props_deep::current(), "scenario": sc.json(), "panic": msg}));
        }
        Err(_) => {} // the landing preceded the call's timer (script exhausted): void
        Ok((rig, pre, post, result, cb_before, cb_after)) => {
            if seams::landed().is_some() {
                rep.count("deadline_landings_checked", 1);
                rep.count("traces_validated", 1);
                let st = Step { sc, hist: seq, letter: 255, pre: &pre, post: &post, result: &result, rig: &rig, log_mark: 0, cb_before, cb_after, used: seq.len(), batch: true, sample: None };
                c15::<K>(tier, idx, &st, rep);
            }
        }
    }
    crate::props_deep::set_current(None);
}

pub fn replay_landing(tier: &'static str, d: &Value) -> i32 {
    let idx = d["scenario_index"].as_u64().unwrap_or(0) as usize;
    let seq: Vec<u8> = d["samples"].as_array().map(|a| a.iter().map(|x| x.as_u64().unwrap_or(0) as u8).collect()).unwrap_or_default();
    let j = d["landing_callback"].as_u64().unwrap_or(0);
    let all = scenarios("C15", tier);
    let Some(sc) = all.get(idx) else {
        crate::report::out("ENGINE-ERROR: replay refers to a scenario outside the lattice");
        return 2;
    };
    let run = || {
        let mut rep = Report::new();
        with_kit!(sc.kit, c15_one_landing(tier, idx, sc, &seq, j, &mut rep));
        rep
    };
    let (r1, r2) = (run(), run());
    if r1.viol_counts.keys().collect::<Vec<_>>() != r2.viol_counts.keys().collect::<Vec<_>>() {
        crate::report::out("ENGINE-ERROR: replay is not deterministic");
        return 2;
    }
    if r1.viol_counts.is_empty() {
        crate::report::out("replay: property C15 holds on this execution");
        0
    } else {
        for v in &r1.violations {
            crate::report::out(&format!("replay: {} -- {}", v.key, v.what));
        }
        crate::report::out("VIOLATION property=C15 replay=(replayed)");
        1
    }
}

// ----------------------------------------------------------------------------------------------
// C16: "never for 0, always for 1" refers to the goal bias the planner has NOW. One planner object is
// driven with bias 0, then its public `goal_bias` field is set to 1, then back to 0 (with and without a
// `setup` in between); the seams count which sampler every iteration asks.

fn bias_switch_kit<K: Kit>(rep: &mut Report) {
    let b = base_of(K::NAME);
    for &pk in &Pk::TREES {
        for resetup in [false, true] {
            let sc = b.scenario(b.world_named("goal-sealed", vec![b.seal_goal.clone()]), b.params(pk, 0.6, 1.5, 0.0), &format!("C16/bias-switch/{}/{}/resetup{resetup}", b.kit, pk.name()));
            let r = crate::explore::guarded(|| {
                let mut rig = Rig::<K>::new(&sc, true);
                rig.space.expire_when_exhausted.set(true);
                let mut phases: Vec<(f64, u64, u64)> = Vec::new();
                for bias in [0.0, 1.0, 0.0, 1.0] {
                    rig.drv.set_goal_bias(bias);
                    if resetup {
                        let (pd, w) = (rig.pd.clone(), rig.world.clone());
                        rig.drv.setup(pd, w);
                    }
                    // scripts for both samplers, so that an unexpected draw is answered and counted
                    rig.space.script.borrow_mut().clear();
                    rig.space.pos.set(0);
                    rig.space.push_script(&b.sub4.iter().cycle().take(12).cloned().collect::<Vec<u8>>());
                    // counted from here: RRT-Connect's setup() draws its goal root, which is not an iteration's sample
                    let (u0, g0) = (rig.space.calls.get() as u64, rig.goal.calls.get() as u64);
                    oxmpl::verif::clock_reset(1_000_000);
                    let _ = rig.drv.solve(crate::drv::iters(6));
                    phases.push((bias, rig.space.calls.get() as u64 - u0, rig.goal.calls.get() as u64 - g0));
                }
                phases
            });
            match r {
                Err(_) => rep.engine_error(format!("bias-switch case could not run: {}", sc.tag)),
                Ok(phases) => {
                    rep.count("bias_switch_cases", 1);
                    rep.count("traces_validated", 1);
                    for (i, (bias, uni, goal)) in phases.iter().enumerate() {
                        let bad = if *bias <= 0.0 { *goal != 0 } else { *uni != 0 };
                        if bad {
                            rep.violate(format!("C16|{}|bias-switch|stale-goal-bias", pk.name()), format!("phase {i}: goal_bias is now {bias} but the planner drew {uni} uniform and {goal} goal samples: it still uses the bias it had before"), || json!({"kind": "bias-switch", "prop": "C16", "scenario": sc.json(), "resetup": resetup, "phases": phases.iter().map(|(b, u, g)| json!({"goal_bias": b, "uniform_draws": u, "goal_draws": g})).collect::<Vec<_>>()}));
                            break;
                        }
                    }
                }
            }
        }
    }
}

// ----------------------------------------------------------------------------------------------
// driver

fn on_caught_for<'a>(prop: &'static str, tier: &'static str, idx: usize, sc: &'a Scenario) -> impl Fn(&[u8], u8, Caught, &mut Report) + Sync + 'a {
    move |hist, l, c, rep| match c {
        Caught::Panic(msg) => {
            let loc = msg.rsplit(" @ ").next().unwrap_or("").to_string();
            rep.violate(format!("{prop}|{}|panic:{loc}", sc.params.pk.name()), format!("planner call unwound: {msg}"), || {
                json!({"kind": "tree", "prop": prop, "tier": tier, "scenario_index": idx, "hist": hist, "letter": l, "scenario": sc.json(), "panic": msg})
            })
        }
        Caught::Harness(m) => rep.engine_error(format!("harness panic in {}: {m}", sc.tag)),
        Caught::WorkCap(n) => rep.engine_error(format!("work cap {n} hit in {}", sc.tag)),
        Caught::ScriptExhausted => rep.engine_error(format!("script exhausted in {}", sc.tag)),
    }
}

fn run_one<K: Kit>(prop: &'static str, tier: &'static str, idx: usize, sc: &Scenario, letters_override: Option<&[u8]>, depth_override: Option<usize>) -> Report {
    let mut rep = Report::new();
    let letters: Vec<u8> = letters_override.map(|l| l.to_vec()).unwrap_or_else(|| (0..sc.alphabet.len() as u8).collect());
    let depth = depth_override.unwrap_or_else(|| depth_for(sc.kit, tier));
    let on_step = |st: &Step<K>, rep: &mut Report| {
        if st.used != 1 && st.result.is_err() && st.sc.goal_fail_at.is_none() {
            rep.engine_error(format!("one-iteration step consumed {} samples in {}", st.used, st.sc.tag));
            return;
        }
        match prop {
            "C15" => c15::<K>(tier, idx, st, rep),
            "C16" => c16::<K>(tier, idx, st, rep),
            "C17" => c17::<K>(tier, idx, st, rep),
            _ => unreachable!(),
        }
        rep.sample(|| json!({"scenario": st.sc.tag, "history": st.hist, "next_sample": st.letter, "nodes_before": st.pre.node_count(), "nodes_after": st.post.node_count(), "result": match st.result { Ok(p) => format!("Ok(path of {})", p.len()), Err(e) => format!("{e:?}") }}));
    };
    let oc = on_caught_for(prop, tier, idx, sc);
    let max_states = if tier == "quick" { 200_000 } else { 2_000_000 };
    bfs_tree::<K>(sc, &letters, depth, max_states, true, &mut rep, &on_step, &oc);
    rep
}

fn run_kit<K: Kit>(prop: &'static str, tier: &'static str, scs: &[(usize, Scenario)]) -> Report {
    let b: Base = if scs.is_empty() { return Report::new() } else { base_of(scs[0].1.kit) };
    let mut jobs: Vec<(usize, &Scenario, Option<Vec<u8>>, Option<usize>)> = Vec::new();
    for (i, sc) in scs {
        jobs.push((*i, sc, None, None));
        if tier != "quick" && sc.alphabet.len() == b.alphabet.len() {
            jobs.push((*i, sc, Some(b.sub4.clone()), Some(8)));
            jobs.push((*i, sc, Some(b.sub3.clone()), Some(10)));
        }
    }
    jobs.par_iter()
        .map(|(i, sc, l, d)| run_one::<K>(prop, tier, *i, sc, l.as_deref(), *d))
        .reduce(Report::new, |mut a, b| {
            a.merge(b);
            a
        })
}

pub fn run(prop: &'static str, tier: &'static str) -> i32 {
    let t0 = Instant::now();
    let all = scenarios(prop, tier);
    let mut rep = Report::new();
    rep.count("scenarios", all.len() as u64);
    for kit in KITS {
        let scs: Vec<(usize, Scenario)> = all.iter().cloned().enumerate().filter(|(_, s)| s.kit == kit).collect();
        let r = with_kit!(kit, run_kit(prop, tier, &scs));
        rep.merge(r);
    }
    if prop == "C17" {
        let vs = versus_scenarios(tier);
        rep.count("versus_scenarios", vs.len() as u64);
        for kit in KITS {
            let scs: Vec<Scenario> = vs.iter().filter(|s| s.kit == kit).cloned().collect();
            let r = with_kit!(kit, versus_kit(tier, &scs));
            rep.merge(r);
        }
    }
    if prop == "C16" {
        for kit in KITS {
            let mut r = Report::new();
            with_kit!(kit, bias_switch_kit(&mut r));
            rep.merge(r);
        }
        let kits: &[&str] = if tier == "quick" { &["RealVector", "SE2"] } else { &KITS };
        for kit in kits {
            let r = with_kit!(*kit, bias_audit_kit(tier));
            rep.merge(r);
        }
    }
    if prop == "C16" || prop == "C17" {
        // supplementary: every single iteration of deep seeded executions against the reference model
        rep.merge(crate::props_deep::run_transitions(prop, tier));
    }
    let must: Vec<&str> = match prop {
        "C15" => vec!["states_after_success", "states_after_timeout", "edges_checked", "zero_length_edges", "deep_runs", "deadline_landings_checked"],
        "C16" => vec!["nodes_added", "nothing_added", "bias0_iterations", "bias1_iterations", "connect_direct_goal_hit", "connect_joined_growing_start", "connect_joined_growing_goal", "connect_first_extension_failed", "bias_audit_coin_flips", "deep_transitions", "bias_switch_cases"],
        "C17" => vec!["rewires", "non_nearest_parent_chosen", "choose_parent_with_alternatives", "versus_paths_compared", "versus_star_strictly_shorter", "versus_seeded_runs", "deep_transitions"],
        _ => vec![],
    };
    if prop == "C15" {
        let n = rep.get("states_checked");
        rep.count("traces_validated", n);
        // supplementary: deep seeded executions (trees of hundreds of nodes) under the same invariants
        rep.merge(crate::props_deep::run("C15", tier));
        // the deadline passing inside every callback of short executions (one world with an obstacle)
        let land: Vec<(usize, &Scenario)> = all.iter().enumerate().filter(|(_, s)| s.world.name == "subset0001" && s.goal_root == 0 && s.params.bias < 1.0).collect();
        let lr = land
            .par_iter()
            .map(|(i, sc)| {
                let mut r = Report::new();
                with_kit!(sc.kit, c15_landings(tier, *i, sc, &mut r));
                r
            })
            .reduce(Report::new, |mut a, b| {
                a.merge(b);
                a
            });
        rep.merge(lr);
    }
    let meta = CheckMeta {
        prop,
        tier,
        level: "model_checking",
        rule: "explicit-state BFS over the real planner: state = complete bitwise tree snapshot (per scenario), transition = one planning iteration on one alphabet letter, de-duplicated by snapshot; every transition (including those into known states) is compared with the reference model / invariants; distinct_nontrivial = distinct snapshots",
        exhaustive: true,
        bounds: json!({"depth_primitive_spaces": depth_for("RealVector", tier), "depth_compound_spaces": depth_for("SE2", tier), "sub4_depth": if tier == "quick" { 0 } else { 8 }, "sub3_depth": if tier == "quick" { 0 } else { 10 }, "scenarios": all.len()}),
        assumptions: vec![
            "scripted seams own samplers, validity, goal, clock; the RNG is dropped from the state key, sound because bias is 0 or 1 and samplers are scripted".into(),
            "reference models use the space's own distance / interpolate (their laws are C09/C10)".into(),
            "roots are valid states (an invalid user-supplied root is C01's subject)".into(),
        ],
        must_be_positive: must,
    };
    finish(&meta, rep, t0)
}

pub fn replay_file(v: &Value) -> i32 {
    let prop: &'static str = Box::leak(v["prop"].as_str().unwrap().to_string().into_boxed_str());
    let tier: &'static str = Box::leak(v["tier"].as_str().unwrap().to_string().into_boxed_str());
    let idx = v["scenario_index"].as_u64().unwrap() as usize;
    let hist: Vec<u8> = v["hist"].as_array().unwrap().iter().map(|x| x.as_u64().unwrap() as u8).collect();
    let letter = v["letter"].as_u64().unwrap() as u8;
    let batch = v["batch"].as_bool().unwrap_or(false);
    let all = scenarios(prop, tier);
    let sc = &all[idx];
    let r1 = with_kit!(sc.kit, replay_one(prop, tier, idx, sc, &hist, letter, batch));
    let r2 = with_kit!(sc.kit, replay_one(prop, tier, idx, sc, &hist, letter, batch));
    let k1: Vec<_> = r1.viol_counts.keys().cloned().collect();
    let k2: Vec<_> = r2.viol_counts.keys().cloned().collect();
    if k1 != k2 || r1.distinct != r2.distinct {
        crate::report::out("ENGINE-ERROR: replay is not deterministic");
        return 2;
    }
    if r1.viol_counts.is_empty() {
        crate::report::out(&format!("replay: property {prop} holds on this transition"));
        0
    } else {
        for v in &r1.violations {
            crate::report::out(&format!("replay: {} -- {}", v.key, v.what));
        }
        crate::report::out(&format!("VIOLATION property={prop} replay=(replayed)"));
        1
    }
}

/// Re-executes exactly one transition (history, letter) and applies the oracle.
fn replay_one<K: Kit>(prop: &'static str, tier: &'static str, idx: usize, sc: &Scenario, hist: &[u8], letter: u8, batch: bool) -> Report {
    let mut rep = Report::new();
    let r = crate::explore::guarded(|| {
        // the pre-state is the one the explorer recorded: history replayed, then a fresh call
        let mut rig = Rig::<K>::new(sc, true);
        rig.logging(true);
        if !hist.is_empty() {
            rig.feed(hist);
        }
        let pre = rig.snapshot();
        if !batch {
            let log_mark = rig.world.log.borrow().len();
            let cb_before = crate::seams::cb_counts();
            let (result, used) = rig.solve_script(&[letter]);
            let cb_after = crate::seams::cb_counts();
            let post = rig.snapshot();
            (rig, pre, post, result, used, log_mark, cb_before, cb_after)
        } else {
            let mut h2 = hist.to_vec();
            h2.push(letter);
            let mut rig = Rig::<K>::new(sc, true);
            rig.logging(true);
            let mut calls = rig.feed(&h2);
            let post = rig.snapshot();
            let marks = crate::seams::sample_marks();
            let cb_after = crate::seams::cb_counts();
            let (seq, cb_before) = marks.last().cloned().unwrap();
            let log_mark = rig.world.log.borrow().iter().position(|(q, _, _)| *q > seq).unwrap_or(rig.world.log.borrow().len());
            let (result, _) = calls.pop().unwrap();
            (rig, pre, post, result, 1, log_mark, cb_before, cb_after)
        }
    });
    match r {
        Err(c) => {
            let oc = on_caught_for(prop, tier, idx, sc);
            oc(hist, letter, c, &mut rep);
        }
        Ok((rig, pre, post, result, used, log_mark, cb_before, cb_after)) => {
            let mut k = post.key();
            k.push(0);
            rep.distinct.insert(crate::report::h128(&k));
            let st = Step { sc, hist, letter, pre: &pre, post: &post, result: &result, rig: &rig, log_mark, cb_before, cb_after, used, batch, sample: None };
            match prop {
                "C15" => c15::<K>(tier, idx, &st, &mut rep),
                "C16" => c16::<K>(tier, idx, &st, &mut rep),
                "C17" => c17::<K>(tier, idx, &st, &mut rep),
                _ => {}
            }
        }
    }
    rep
}

//! C09 (metric axioms), C10 (interpolation), C13 (compound composition law): exhaustive
//! enumeration of structured state lattices against the real spaces, with independent references.

use crate::kit::{build_any, Cmp, Kit, Rv, Se2, Se3, So2, So3, Spec, V};
use crate::lattice::*;
use crate::refspace::{self, angle_tol, as_parts, quat_norm, wrap_ref};
use crate::report::{finish, h128, CheckMeta, Report};
use oxmpl::base::space::StateSpace;
use rayon::prelude::*;
use serde_json::json;
use std::f64::consts::PI;
use std::time::Instant;

/// magnitude scale of a value (for relative tolerances)
fn scale(v: &V) -> f64 {
    match v {
        V::Rv(x) => x.iter().fold(0.0f64, |m, c| m.max(c.abs())),
        V::So2(_) | V::So3(_) => 1.0,
        V::Cmp(c) => c.iter().map(scale).fold(0.0, f64::max),
    }
}

/// Stated tolerance with which the distance between a and b is known (DESIGN C09).
pub fn dist_tol(spec: &Spec, a: &V, b: &V) -> f64 {
    match (spec, a, b) {
        // (+1e-153: a coordinate difference below sqrt(MIN_POSITIVE) vanishes when it is squared)
        (Spec::Rv { .. }, V::Rv(_), V::Rv(_)) => 1e-12 * (scale(a) + scale(b)).max(1e-300) + 1e-153,
        (Spec::So2 { .. }, V::So2(x), V::So2(y)) => angle_tol(*x) + angle_tol(*y) + 8.0 * f64::EPSILON * PI,
        (Spec::So3 { .. }, ..) => 1e-7,
        (_, V::Cmp(x), V::Cmp(y)) => {
            let (parts, w) = as_parts(spec).unwrap();
            (0..parts.len()).map(|i| w[i].abs() * dist_tol(&parts[i], &x[i], &y[i])).sum::<f64>() * (1.0 + 1e-9) + 1e-300
        }
        _ => panic!("dist_tol mismatch"),
    }
}

fn diameter_bound(spec: &Spec) -> Option<f64> {
    match spec {
        Spec::So2 { .. } | Spec::So3 { .. } => Some(PI),
        _ => None,
    }
}

/// equivalent representations of a value (same configuration)
fn equivalents(v: &V) -> Vec<V> {
    match v {
        V::So2(a) if a.abs() < 1e6 => vec![V::So2(a + 2.0 * PI), V::So2(a - 2.0 * PI), V::So2(a + 4.0 * PI)],
        V::So3(q) => vec![V::So3([-q[0], -q[1], -q[2], -q[3]])],
        V::Cmp(c) => {
            // vary one component at a time
            let mut out = Vec::new();
            for (i, x) in c.iter().enumerate() {
                for e in equivalents(x) {
                    let mut n = c.clone();
                    n[i] = e;
                    out.push(V::Cmp(n));
                }
            }
            out
        }
        _ => vec![],
    }
}

fn viol(rep: &mut Report, prop: &str, kit: &str, law: &str, spec: &Spec, what: String, detail: serde_json::Value) {
    rep.violate(format!("{prop}|{kit}|{law}"), what, || json!({"kind": "space", "prop": prop, "space": spec.json(), "detail": detail}));
}

// ----------------------------------------------------------------------------------------------
// C09

fn c09_space<K: Kit>(spec: &Spec, lat: &[V], triples: bool, rep: &mut Report) {
    let sp = K::build(spec);
    let kit = K::NAME;
    let st: Vec<K::S> = lat.iter().map(K::from_v).collect();
    let n = st.len();
    let mut d = vec![0.0f64; n * n];
    for i in 0..n {
        for j in 0..n {
            let x = sp.distance(&st[i], &st[j]);
            d[i * n + j] = x;
            rep.count("evaluations", 1);
            rep.distinct.insert(h128(&[x.to_bits(), i as u64, j as u64, h128(&lat[i].bits()) as u64, h128(&lat[j].bits()) as u64]));
            let tol = dist_tol(spec, &lat[i], &lat[j]);
            let det = || json!({"a": lat[i].json(), "b": lat[j].json(), "d": x});
            if !refspace::dist(spec, &lat[i], &lat[j]).is_finite() {
                // (absurd weights: the textbook formula itself overflows for this pair; nothing is claimed)
                rep.count("pairs_skipped_reference_overflows", 1);
                continue;
            }
            if !(x >= 0.0) || !x.is_finite() {
                viol(rep, "C09", kit, "non-negative-finite", spec, format!("distance is {x}"), det());
                continue;
            }
            if i == j && x > tol {
                viol(rep, "C09", kit, "identity", spec, format!("d(a,a) = {x} > {tol}"), det());
            }
            // the distance is a function of the two configurations: neither whether both arguments are the very
            // same object, nor what the space object was asked before, may matter (bit for bit)
            if i == j {
                let copy = st[i].clone();
                let y = sp.distance(&st[i], &copy);
                rep.count("aliasing_variants", 1);
                if y.to_bits() != x.to_bits() {
                    viol(rep, "C09", kit, "result-depends-on-argument-aliasing", spec, format!("d(a,a) = {x} with the same object on both sides, {y} with a copy"), det());
                }
            }
            {
                let fresh = K::build(spec);
                let y = fresh.distance(&st[i], &st[j]);
                rep.count("fresh_space_variants", 1);
                if y.to_bits() != x.to_bits() {
                    viol(rep, "C09", kit, "result-depends-on-call-history", spec, format!("a space object that answered other queries before says {x}, a fresh one {y}"), det());
                }
            }
            if let Some(dm) = diameter_bound(spec) {
                if x > dm * (1.0 + 2.0 * f64::EPSILON) {
                    viol(rep, "C09", kit, "diameter", spec, format!("distance {x} exceeds the manifold diameter {dm}"), det());
                }
            }
            let r = refspace::dist(spec, &lat[i], &lat[j]);
            if (x - r).abs() > tol + 1e-12 * r.abs() {
                viol(rep, "C09", kit, "reference-mismatch", spec, format!("distance {x} but the independent reference gives {r} (tolerance {tol})"), det());
            }
            rep.count("pairs", 1);
        }
    }
    for i in 0..n {
        for j in 0..i {
            let tol = dist_tol(spec, &lat[i], &lat[j]);
            if (d[i * n + j] - d[j * n + i]).abs() > tol {
                viol(rep, "C09", kit, "symmetry", spec, format!("d(a,b) = {} but d(b,a) = {}", d[i * n + j], d[j * n + i]), json!({"a": lat[i].json(), "b": lat[j].json()}));
            }
        }
    }
    // representation invariance
    for i in 0..n {
        for e in equivalents(&lat[i]) {
            let es = K::from_v(&e);
            for j in 0..n {
                let x = sp.distance(&es, &st[j]);
                let exact = matches!(e, V::So3(_));
                let tol = if exact { 0.0 } else { dist_tol(spec, &e, &lat[j]) + dist_tol(spec, &lat[i], &lat[j]) };
                rep.count("representation_pairs", 1);
                if !refspace::dist(spec, &lat[i], &lat[j]).is_finite() {
                    continue;
                }
                if !((x - d[i * n + j]).abs() <= tol) {
                    viol(rep, "C09", kit, "representation-invariance", spec, format!("d(a,b) = {} but for an equivalent representation of a it is {x}", d[i * n + j]), json!({"a": lat[i].json(), "a_equiv": e.json(), "b": lat[j].json()}));
                }
            }
        }
    }
    if triples {
        for i in 0..n {
            for j in 0..n {
                let tij = dist_tol(spec, &lat[i], &lat[j]);
                for k in 0..n {
                    let tol = tij + dist_tol(spec, &lat[j], &lat[k]) + dist_tol(spec, &lat[i], &lat[k]);
                    let (ab, bc, ac) = (d[i * n + j], d[j * n + k], d[i * n + k]);
                    if ac > ab + bc + tol + 1e-12 * (ab + bc) {
                        viol(rep, "C09", kit, "triangle", spec, format!("d(a,c) = {ac} > d(a,b) + d(b,c) = {}", ab + bc), json!({"a": lat[i].json(), "b": lat[j].json(), "c": lat[k].json()}));
                    }
                }
            }
        }
        rep.count("triples", (n * n * n) as u64);
    }
}

// ----------------------------------------------------------------------------------------------
// C10

fn is_canonical(v: &V, unit_inputs: bool) -> Result<(), String> {
    match v {
        V::Rv(x) => {
            if x.iter().all(|c| !c.is_nan()) {
                Ok(())
            } else {
                Err("NaN coordinate".into())
            }
        }
        V::So2(a) => {
            if *a >= -PI && *a <= PI {
                Ok(())
            } else {
                Err(format!("angle {a} outside [-pi, pi]"))
            }
        }
        V::So3(q) => {
            if !unit_inputs || (quat_norm(q) - 1.0).abs() <= 1e-12 {
                Ok(())
            } else {
                Err(format!("quaternion norm {}", quat_norm(q)))
            }
        }
        V::Cmp(c) => c.iter().try_for_each(|x| is_canonical(x, unit_inputs)),
    }
}

fn interp_tol(spec: &Spec, a: &V, b: &V) -> f64 {
    match spec {
        Spec::So3 { .. } => 1e-5,
        Spec::Rv { .. } | Spec::So2 { .. } => 4.0 * dist_tol(spec, a, b),
        _ => {
            let (parts, w) = as_parts(spec).unwrap();
            let (V::Cmp(x), V::Cmp(y)) = (a, b) else { panic!() };
            (0..parts.len()).map(|i| w[i].abs() * interp_tol(&parts[i], &x[i], &y[i])).sum::<f64>() + 1e-300
        }
    }
}

/// is any SO(2) part of (a,b) exactly antipodal (shortest path not unique)?
fn has_antipodal(spec: &Spec, a: &V, b: &V) -> bool {
    match (spec, a, b) {
        (Spec::So2 { .. }, V::So2(x), V::So2(y)) => (refspace::so2_dist(*x, *y) - PI).abs() <= angle_tol(*x) + angle_tol(*y) + 1e-15,
        (Spec::So3 { .. }, V::So3(x), V::So3(y)) => (refspace::so3_dist(x, y) - PI).abs() <= 1e-7,
        (_, V::Cmp(x), V::Cmp(y)) => {
            let (parts, _) = as_parts(spec).unwrap();
            (0..parts.len()).any(|i| has_antipodal(&parts[i], &x[i], &y[i]))
        }
        _ => false,
    }
}

/// Largest reference distance between corresponding components (weights ignored): "the same
/// configuration" for a compound means every component agrees, whatever it weighs in the metric.
fn config_gap(spec: &Spec, a: &V, b: &V) -> f64 {
    match (a, b) {
        (V::Cmp(x), V::Cmp(y)) => {
            let (parts, _) = as_parts(spec).unwrap();
            (0..parts.len()).map(|i| config_gap(&parts[i], &x[i], &y[i])).fold(0.0, f64::max)
        }
        _ => refspace::dist(spec, a, b),
    }
}
fn config_tol(spec: &Spec, a: &V, b: &V) -> f64 {
    match (a, b) {
        (V::Cmp(x), V::Cmp(y)) => {
            let (parts, _) = as_parts(spec).unwrap();
            (0..parts.len()).map(|i| config_tol(&parts[i], &x[i], &y[i])).fold(0.0, f64::max)
        }
        _ => interp_tol(spec, a, b),
    }
}

fn c10_space<K: Kit>(spec: &Spec, lat: &[V], ts: &[f64], rep: &mut Report) {
    let sp = K::build(spec);
    let kit = K::NAME;
    let st: Vec<K::S> = lat.iter().map(K::from_v).collect();
    let n = st.len();
    for i in 0..n {
        for j in 0..n {
            let dab = sp.distance(&st[i], &st[j]);
            let tol = interp_tol(spec, &lat[i], &lat[j]);
            let antipodal = has_antipodal(spec, &lat[i], &lat[j]);
            if antipodal {
                rep.count("antipodal_pairs", 1);
            }
            for &t in ts {
                let mut out = st[i].clone();
                sp.interpolate(&st[i], &st[j], t, &mut out);
                let ov = K::to_v(&out);
                rep.count("evaluations", 1);
                rep.distinct.insert(h128(&ov.bits()));
                let det = || json!({"a": lat[i].json(), "b": lat[j].json(), "t": t, "result": ov.json()});
                // the result is a function of (a, b, t): what the output state held before must not matter
                for other in [&st[j], &st[(i + j + 1) % n]] {
                    let mut o2 = other.clone();
                    sp.interpolate(&st[i], &st[j], t, &mut o2);
                    rep.count("output_state_variants", 1);
                    if K::bits(&o2) != K::bits(&out) {
                        viol(rep, "C10", kit, "result-depends-on-output-state", spec, format!("interpolating into an output state that held {} gives {}", K::to_v(other).json(), K::to_v(&o2).json()), det());
                        break;
                    }
                }
                // ... and neither must what the space object was asked before (a fresh object gives the same bits)
                {
                    let fresh = K::build(spec);
                    let mut o3 = st[i].clone();
                    fresh.interpolate(&st[i], &st[j], t, &mut o3);
                    rep.count("fresh_space_variants", 1);
                    if K::bits(&o3) != K::bits(&out) {
                        viol(rep, "C10", kit, "result-depends-on-call-history", spec, format!("a space object that interpolated other pairs before gives this result, a fresh one {}", K::to_v(&o3).json()), det());
                    }
                }
                if !ov.all_finite() {
                    viol(rep, "C10", kit, "non-finite-result", spec, "interpolation produced a non-finite state".into(), det());
                    continue;
                }
                if let Err(e) = is_canonical(&ov, true) {
                    viol(rep, "C10", kit, "canonical-form", spec, format!("result not canonical: {e}"), det());
                }
                let da = sp.distance(&st[i], &out);
                let db = sp.distance(&out, &st[j]);
                if t == 0.0 && !(da <= tol) {
                    viol(rep, "C10", kit, "endpoint-t0", spec, format!("interpolate(a,b,0) is {da} away from a"), det());
                }
                if t == 1.0 && !(db <= tol) {
                    viol(rep, "C10", kit, "endpoint-t1", spec, format!("interpolate(a,b,1) is {db} away from b"), det());
                }
                // compounds: the endpoints component by component (a weight of 0 hides a component from
                // the compound metric, not from the configuration)
                if matches!(ov, V::Cmp(_)) && (t == 0.0 || t == 1.0) {
                    let target = if t == 0.0 { &lat[i] } else { &lat[j] };
                    let gap = config_gap(spec, &ov, target);
                    rep.count("component_endpoint_checks", 1);
                    if !(gap <= config_tol(spec, &lat[i], &lat[j])) {
                        viol(rep, "C10", kit, "endpoint-component", spec, format!("at t = {t} a component of the result is {gap} away from the endpoint's component"), det());
                    }
                }
                // Exactly antipodal SO(2)/SO(3) parts: both arcs are shortest, the proportional
                // distances still hold on either. (In compounds they hold per component; the
                // compound distances then hold as well.)
                if !((da - t * dab).abs() <= tol + 1e-12 * dab) || !((db - (1.0 - t) * dab).abs() <= tol + 1e-12 * dab) {
                    viol(rep, "C10", kit, "constant-speed-shortest-path", spec, format!("d(a,x) = {da}, d(x,b) = {db}, expected {} and {}", t * dab, (1.0 - t) * dab), det());
                }
                // reversal
                let mut rev = st[j].clone();
                sp.interpolate(&st[j], &st[i], 1.0 - t, &mut rev);
                let dr = sp.distance(&out, &rev);
                // (the statement makes no exception for antipodal pairs: whichever of the two shortest arcs
                // the implementation picks from a to b, it must pick the same one from b to a)
                if !(dr <= 2.0 * tol + 1e-12 * dab) {
                    if antipodal {
                        rep.count("antipodal_reversal_failures", 0);
                    }
                    viol(rep, "C10", kit, if antipodal { "reversal-antipodal" } else { "reversal" }, spec, format!("interpolate(a,b,t) and interpolate(b,a,1-t) are {dr} apart"), det());
                }
            }
        }
    }
}

// ----------------------------------------------------------------------------------------------
// C13: compound law, evaluated from the component spaces

fn comp_dist(spec: &Spec, a: &V, b: &V) -> f64 {
    // the real component space's distance
    match spec {
        Spec::Rv { .. } => Rv::build(spec).distance(&Rv::from_v(a), &Rv::from_v(b)),
        Spec::So2 { .. } => So2::build(spec).distance(&So2::from_v(a), &So2::from_v(b)),
        Spec::So3 { .. } => So3::build(spec).distance(&So3::from_v(a), &So3::from_v(b)),
        // a compound used as a component: the real compound space (its own law is checked where it is the top level)
        Spec::Cmp { .. } => Cmp::build(spec).distance(&Cmp::from_v(a), &Cmp::from_v(b)),
        _ => panic!("nested SE(2)/SE(3)"),
    }
}
fn comp_interp(spec: &Spec, a: &V, b: &V, t: f64) -> V {
    match spec {
        Spec::Rv { .. } => {
            let mut o = Rv::from_v(a);
            Rv::build(spec).interpolate(&Rv::from_v(a), &Rv::from_v(b), t, &mut o);
            Rv::to_v(&o)
        }
        Spec::So2 { .. } => {
            let mut o = So2::from_v(a);
            So2::build(spec).interpolate(&So2::from_v(a), &So2::from_v(b), t, &mut o);
            So2::to_v(&o)
        }
        Spec::So3 { .. } => {
            let mut o = So3::from_v(a);
            So3::build(spec).interpolate(&So3::from_v(a), &So3::from_v(b), t, &mut o);
            So3::to_v(&o)
        }
        Spec::Cmp { .. } => {
            let mut o = Cmp::from_v(a);
            Cmp::build(spec).interpolate(&Cmp::from_v(a), &Cmp::from_v(b), t, &mut o);
            Cmp::to_v(&o)
        }
        _ => panic!("nested SE(2)/SE(3)"),
    }
}
fn comp_enforce(spec: &Spec, a: &V) -> V {
    match spec {
        Spec::Rv { .. } => {
            let mut o = Rv::from_v(a);
            Rv::build(spec).enforce_bounds(&mut o);
            Rv::to_v(&o)
        }
        Spec::So2 { .. } => {
            let mut o = So2::from_v(a);
            So2::build(spec).enforce_bounds(&mut o);
            So2::to_v(&o)
        }
        Spec::So3 { .. } => {
            let mut o = So3::from_v(a);
            So3::build(spec).enforce_bounds(&mut o);
            So3::to_v(&o)
        }
        Spec::Cmp { .. } => {
            let mut o = Cmp::from_v(a);
            Cmp::build(spec).enforce_bounds(&mut o);
            Cmp::to_v(&o)
        }
        _ => panic!("nested SE(2)/SE(3)"),
    }
}
fn comp_satisfies(spec: &Spec, a: &V) -> bool {
    match spec {
        Spec::Rv { .. } => Rv::build(spec).satisfies_bounds(&Rv::from_v(a)),
        Spec::So2 { .. } => So2::build(spec).satisfies_bounds(&So2::from_v(a)),
        Spec::So3 { .. } => So3::build(spec).satisfies_bounds(&So3::from_v(a)),
        Spec::Cmp { .. } => Cmp::build(spec).satisfies_bounds(&Cmp::from_v(a)),
        _ => panic!("nested SE(2)/SE(3)"),
    }
}
fn comp_lvs(spec: &Spec) -> f64 {
    build_any(spec).get_longest_valid_segment_length_dyn()
}
fn comp_sample(spec: &Spec, rng: &mut crate::rngseam::WordRng) -> Option<V> {
    match spec {
        Spec::Rv { .. } => Rv::build(spec).sample_uniform(rng).ok().map(|s| Rv::to_v(&s)),
        Spec::So2 { .. } => So2::build(spec).sample_uniform(rng).ok().map(|s| So2::to_v(&s)),
        Spec::So3 { .. } => So3::build(spec).sample_uniform(rng).ok().map(|s| So3::to_v(&s)),
        Spec::Cmp { .. } => Cmp::build(spec).sample_uniform(rng).ok().map(|s| Cmp::to_v(&s)),
        _ => panic!("nested SE(2)/SE(3)"),
    }
}

/// every R^n / SO(2) part bounded (so that the stream audit can map its coordinates to [0,1))
fn has_bounded_parts(spec: &Spec) -> bool {
    match as_parts(spec) {
        Some((parts, _)) => parts.iter().all(|p| match p {
            Spec::Rv { bounds, .. } => bounds.as_ref().map(|b| b.iter().all(|(l, u)| l.is_finite() && u.is_finite())).unwrap_or(false),
            _ => true,
        }),
        None => false,
    }
}

fn bits_eq(a: &V, b: &V) -> bool {
    a.bits() == b.bits()
}

fn c13_space<K: Kit>(spec: &Spec, lat: &[V], ts: &[f64], rep: &mut Report, label: &str) {
    // component by component also for parameters outside [0,1] (the composition law does not depend on t)
    let mut ts_ext: Vec<f64> = ts.to_vec();
    ts_ext.extend([-0.5, 1.5, 1.0 + 1e-9]);
    let ts: &[f64] = &ts_ext;
    let sp = K::build(spec);
    let (parts, w) = as_parts(spec).unwrap();
    let kit = K::NAME;
    let st: Vec<K::S> = lat.iter().map(K::from_v).collect();
    let n = st.len();
    let comp = |v: &V| -> Vec<V> {
        match v {
            V::Cmp(c) => c.clone(),
            _ => panic!(),
        }
    };
    // resolution
    let want: f64 = (0..parts.len()).map(|i| (comp_lvs(&parts[i]) * w[i]).powi(2)).sum::<f64>().sqrt();
    let got = sp.get_longest_valid_segment_length();
    rep.count("evaluations", 1);
    if (got - want).abs() > 1e-12 * want.abs() {
        viol(rep, "C13", kit, &format!("{label}resolution"), spec, format!("longest valid segment {got}, weighted combination of the components gives {want}"), json!({}));
    }
    // bounds operations on the "wild" product lattice: out-of-bounds, boundary and non-canonical
    // in-bounds component states (an early exit or a skipped component shows only there)
    // (layouts with many components: a thinned product - all components at wild point k, and one component at a time)
    let wild_states: Vec<V> = if parts.len() <= 4 {
        compound_wild_lattice(&parts)
    } else {
        let subs: Vec<Vec<V>> = parts.iter().map(|p| compound_wild_lattice(std::slice::from_ref(p)).into_iter().map(|v| match v { V::Cmp(mut c) => c.remove(0), other => other }).collect()).collect();
        let depth = subs.iter().map(|s| s.len()).max().unwrap_or(1);
        let mut out: Vec<V> = (0..depth).map(|k| V::Cmp(subs.iter().map(|s| s[k % s.len()].clone()).collect())).collect();
        for i in 0..parts.len() {
            for k in 1..subs[i].len() {
                out.push(V::Cmp(subs.iter().enumerate().map(|(j, s)| if j == i { s[k].clone() } else { s[0].clone() }).collect()));
            }
        }
        out
    };
    for wv_state in wild_states {
        let s0 = K::from_v(&wv_state);
        let ai = comp(&K::to_v(&s0));
        let sat = sp.satisfies_bounds(&s0);
        let want_sat = (0..parts.len()).all(|k| comp_satisfies(&parts[k], &ai[k]));
        rep.count("evaluations", 2);
        rep.count("wild_bounds_states", 1);
        if sat != want_sat {
            viol(rep, "C13", kit, &format!("{label}satisfies_bounds"), spec, format!("compound says {sat}, components say {want_sat}"), json!({"a": wv_state.json()}));
        }
        let mut e = s0.clone();
        sp.enforce_bounds(&mut e);
        let ev = comp(&K::to_v(&e));
        for k in 0..parts.len() {
            let wv = comp_enforce(&parts[k], &ai[k]);
            if !bits_eq(&ev[k], &wv) {
                viol(rep, "C13", kit, &format!("{label}enforce_bounds"), spec, format!("component {k} differs from the component space's own result"), json!({"a": wv_state.json(), "got": ev[k].json(), "want": wv.json()}));
            }
            if !bits_eq(&wv, &ai[k]) {
                rep.count("wild_enforce_changed", 1);
            }
        }
    }
    for i in 0..n {
        let ai = comp(&lat[i]);
        // bounds, component by component
        let sat = sp.satisfies_bounds(&st[i]);
        let want_sat = (0..parts.len()).all(|k| comp_satisfies(&parts[k], &ai[k]));
        rep.count("evaluations", 2);
        if sat != want_sat {
            viol(rep, "C13", kit, &format!("{label}satisfies_bounds"), spec, format!("compound says {sat}, components say {want_sat}"), json!({"a": lat[i].json()}));
        }
        let mut e = st[i].clone();
        sp.enforce_bounds(&mut e);
        let ev = comp(&K::to_v(&e));
        for k in 0..parts.len() {
            let wv = comp_enforce(&parts[k], &ai[k]);
            if !bits_eq(&ev[k], &wv) {
                viol(rep, "C13", kit, &format!("{label}enforce_bounds"), spec, format!("component {k} differs from the component space's own result"), json!({"a": lat[i].json(), "got": ev[k].json(), "want": wv.json()}));
            }
        }
        for j in 0..n {
            let bj = comp(&lat[j]);
            let d = sp.distance(&st[i], &st[j]);
            let want: f64 = (0..parts.len()).map(|k| (comp_dist(&parts[k], &ai[k], &bj[k]) * w[k]).powi(2)).sum::<f64>().sqrt();
            rep.count("evaluations", 1);
            rep.distinct.insert(h128(&[d.to_bits(), i as u64, j as u64, h128(&lat[i].bits()) as u64]));
            if !want.is_finite() {
                rep.count("pairs_skipped_reference_overflows", 1);
            } else if !((d - want).abs() <= 1e-12 * want.abs().max(1e-300)) {
                viol(rep, "C13", kit, &format!("{label}distance"), spec, format!("compound distance {d}, sqrt(sum (w_i d_i)^2) = {want}"), json!({"a": lat[i].json(), "b": lat[j].json(), "weights": w}));
            }
            for &t in ts {
                let mut o = st[i].clone();
                sp.interpolate(&st[i], &st[j], t, &mut o);
                let ov = comp(&K::to_v(&o));
                rep.count("evaluations", 1);
                for k in 0..parts.len() {
                    let wv = comp_interp(&parts[k], &ai[k], &bj[k], t);
                    if !bits_eq(&ov[k], &wv) {
                        viol(rep, "C13", kit, &format!("{label}interpolate"), spec, format!("component {k} differs from the component space's own interpolation"), json!({"a": lat[i].json(), "b": lat[j].json(), "t": t, "got": ov[k].json(), "want": wv.json()}));
                    }
                }
                // the result is a function of (a, b, t): what the output state held before must not matter
                let mut o2 = st[(i + j + 1) % n].clone();
                sp.interpolate(&st[i], &st[j], t, &mut o2);
                if K::bits(&o2) != K::bits(&o) {
                    viol(rep, "C13", kit, &format!("{label}interpolate-depends-on-output-state"), spec, "interpolating into an output state with other previous content gives another result".into(), json!({"a": lat[i].json(), "b": lat[j].json(), "t": t, "into_clone_of_a": K::to_v(&o).json(), "into_other_state": K::to_v(&o2).json()}));
                }
            }
        }
    }
    // sampling: the same scripted RNG words fed to the compound and, sequentially, to the components
    for seed in 0..8u64 {
        let words: Vec<u64> = (0..4099).map(|i| crate::rngseam::mix(seed * 100_000 + i)).collect();
        let mut r1 = crate::rngseam::WordRng::new(words.clone());
        let got = match crate::explore::guarded(|| sp.sample_uniform(&mut r1).ok().map(|s| K::to_v(&s))) {
            Ok(g) => g,
            Err(_) => {
                rep.engine_error(format!("sampling did not terminate / unwound for {spec:?}"));
                continue;
            }
        };
        let mut r2 = crate::rngseam::WordRng::new(words);
        let mut want: Option<Vec<V>> = Some(vec![]);
        for p in &parts {
            match crate::explore::guarded(|| comp_sample(p, &mut r2)) {
                Ok(Some(v)) => {
                    if let Some(wv) = want.as_mut() {
                        wv.push(v)
                    }
                }
                _ => {
                    want = None;
                    break;
                }
            }
        }
        rep.count("evaluations", 1);
        rep.count("sampling_comparisons", 1);
        let same = match (&got, &want) {
            (None, None) => true,
            (Some(V::Cmp(g)), Some(wv)) => g.len() == wv.len() && g.iter().zip(wv).all(|(a, b)| bits_eq(a, b)),
            _ => false,
        };
        if !same {
            // another way of handing the generator to the components may still be component-wise sampling:
            // only alarm when the law itself is broken on real streams (once per space)
            if seed == 0 {
                rep.count("sampling_word_order_differs", 1);
                if has_bounded_parts(spec) {
                    if let Err(e) = crate::props_uniform::generic_stream_audit::<K>(spec) {
                        viol(rep, "C13", kit, &format!("{label}sample_uniform"), spec, format!("the compound sample differs from sampling the components in order with the same RNG words, and on real generator streams: {e}"), json!({"got": got.map(|v| v.json()), "want": want.map(|v| v.iter().map(|x| x.json()).collect::<Vec<_>>())}));
                    }
                }
            }
        }
    }
}

/// The law holds for the weights the space has NOW: a compound space is queried (resolution,
/// distance), then its public `weights` field is edited, and the law is evaluated again on the same
/// object and on a clone of it.
fn c13_reweighted(spec: &Spec, lat: &[V], rep: &mut Report) {
    let Spec::Cmp { parts, weights } = spec else { return };
    let mut sp = Cmp::build(spec);
    let st: Vec<<Cmp as Kit>::S> = lat.iter().take(6).map(Cmp::from_v).collect();
    // first use with the original weights
    let _ = sp.get_longest_valid_segment_length();
    if st.len() >= 2 {
        let _ = sp.distance(&st[0], &st[1]);
    }
    // rotate the weights (and scale them, so that equal tuples change too)
    let k = weights.len();
    let new_w: Vec<f64> = (0..k).map(|i| weights[(i + 1) % k] * 3.0 + 0.25).collect();
    sp.weights = new_w.clone();
    let clone = sp.clone();
    rep.count("reweighted_spaces", 1);
    for (name, s) in [("edited", &sp), ("clone-of-edited", &clone)] {
        let want: f64 = (0..k).map(|i| (comp_lvs(&parts[i]) * new_w[i]).powi(2)).sum::<f64>().sqrt();
        let got = s.get_longest_valid_segment_length();
        rep.count("evaluations", 1);
        if (got - want).abs() > 1e-12 * want.abs() {
            viol(rep, "C13", "Compound", "resolution-after-reweighting", spec, format!("{name}: longest valid segment {got}, the weighted combination of the components with the CURRENT weights gives {want}"), json!({"weights_now": new_w}));
        }
        for i in 0..st.len() {
            for j in 0..st.len() {
                let (ai, bj) = (match &lat[i] { V::Cmp(c) => c.clone(), _ => unreachable!() }, match &lat[j] { V::Cmp(c) => c.clone(), _ => unreachable!() });
                let d = s.distance(&st[i], &st[j]);
                let want: f64 = (0..k).map(|q| (comp_dist(&parts[q], &ai[q], &bj[q]) * new_w[q]).powi(2)).sum::<f64>().sqrt();
                rep.count("evaluations", 1);
                if want.is_finite() && !((d - want).abs() <= 1e-12 * want.abs().max(1e-300)) {
                    viol(rep, "C13", "Compound", "distance-after-reweighting", spec, format!("{name}: compound distance {d}, the law with the CURRENT weights gives {want}"), json!({"a": lat[i].json(), "b": lat[j].json(), "weights_now": new_w}));
                }
            }
        }
    }
}

// ----------------------------------------------------------------------------------------------
// drivers

/// SE(2) / SE(3) are tuple structs around a public compound space. A user can put any components behind
/// that field (a rotation cone for SE(3), which `new` cannot express): the wrapper must still behave
/// exactly as the compound it holds - every operation, on the wild and the ordinary product lattice.
fn c13_se_inner_replaced(rep: &mut Report) {
    use oxmpl::base::space::{SE2StateSpace, SE3StateSpace};
    use oxmpl::base::state::{SE2State, SE3State};
    let cases: Vec<(Vec<Spec>, Vec<f64>, bool)> = vec![
        (vec![Spec::Rv { dim: 3, bounds: Some(vec![(-5.0, 5.0); 3]), frac: None }, Spec::So3 { bounds: Some(([0.0, 0.0, 0.0, 1.0], 2.6)), frac: None }], vec![1.0, 0.5], true),
        (vec![Spec::Rv { dim: 3, bounds: Some(vec![(-5.0, 5.0); 3]), frac: None }, Spec::So3 { bounds: Some((crate::catalog::quat_axis_angle([1.0, 0.0, 0.0], 90.0), 1.0)), frac: None }], vec![2.0, 1.0], true),
        (vec![Spec::Rv { dim: 2, bounds: Some(vec![(-5.0, 5.0), (0.0, 1.0)]), frac: None }, Spec::So2 { bounds: Some((-1.0, 2.5)), frac: Some(0.5) }], vec![1.0, 3.0], false),
    ];
    for (parts, weights, is3) in cases {
        let spec = Spec::Cmp { parts: parts.clone(), weights: weights.clone() };
        let cmp = Cmp::build(&spec);
        let mut states = compound_wild_lattice(&parts);
        states.extend(compound_lattice(&parts));
        let label = if is3 { "SE3-with-replaced-inner-space" } else { "SE2-with-replaced-inner-space" };
        let kit = if is3 { "SE3" } else { "SE2" };
        macro_rules! go {
            ($sp:expr, $mk:expr, $un:expr) => {{
                let sp = $sp;
                let (l1, l2) = (sp.get_longest_valid_segment_length(), cmp.get_longest_valid_segment_length());
                if l1.to_bits() != l2.to_bits() {
                    viol(rep, "C13", kit, &format!("{label}:resolution"), &spec, format!("wrapper {l1}, the compound it holds {l2}"), json!({}));
                }
                for (i, v) in states.iter().enumerate() {
                    let c = Cmp::from_v(v);
                    let s = $mk(Cmp::from_v(v));
                    rep.count("evaluations", 3);
                    rep.count("replaced_inner_space_states", 1);
                    if sp.satisfies_bounds(&s) != cmp.satisfies_bounds(&c) {
                        viol(rep, "C13", kit, &format!("{label}:satisfies_bounds"), &spec, format!("wrapper says {}, the compound it holds says {}", sp.satisfies_bounds(&s), cmp.satisfies_bounds(&c)), json!({"a": v.json()}));
                    }
                    let (mut e1, mut e2) = (s.clone(), c.clone());
                    sp.enforce_bounds(&mut e1);
                    cmp.enforce_bounds(&mut e2);
                    if Cmp::bits(&$un(&e1)) != Cmp::bits(&e2) {
                        viol(rep, "C13", kit, &format!("{label}:enforce_bounds"), &spec, "wrapper and the compound it holds enforce differently".into(), json!({"a": v.json()}));
                    }
                    let w = &states[(i * 7 + 3) % states.len()];
                    let (c2, s2) = (Cmp::from_v(w), $mk(Cmp::from_v(w)));
                    if sp.distance(&s, &s2).to_bits() != cmp.distance(&c, &c2).to_bits() {
                        viol(rep, "C13", kit, &format!("{label}:distance"), &spec, format!("wrapper {}, the compound it holds {}", sp.distance(&s, &s2), cmp.distance(&c, &c2)), json!({"a": v.json(), "b": w.json()}));
                    }
                    for t in [0.0, 0.3, 1.0] {
                        let (mut o1, mut o2) = (s.clone(), c.clone());
                        sp.interpolate(&s, &s2, t, &mut o1);
                        cmp.interpolate(&c, &c2, t, &mut o2);
                        if Cmp::bits(&$un(&o1)) != Cmp::bits(&o2) {
                            viol(rep, "C13", kit, &format!("{label}:interpolate"), &spec, "wrapper and the compound it holds interpolate differently".into(), json!({"a": v.json(), "b": w.json(), "t": t}));
                        }
                    }
                }
            }};
        }
        if is3 {
            let mut sp = SE3StateSpace::new(weights[1], Some(vec![(-5.0, 5.0); 3])).expect("se3");
            sp.0 = Cmp::build(&spec);
            go!(sp, |c| SE3State(c), |s: &SE3State| s.0.clone());
        } else {
            let mut sp = SE2StateSpace::new(weights[1], Some(vec![(-5.0, 5.0), (0.0, 1.0), (-1.0, 2.5)])).expect("se2");
            sp.0 = Cmp::build(&spec);
            go!(sp, |c| SE2State(c), |s: &SE2State| s.0.clone());
        }
    }
}

fn primitive_spaces(thorough: bool) -> Vec<(Spec, Vec<V>)> {
    let mut v = Vec::new();
    for n in [1usize, 2, 3, 6] {
        v.push((Spec::Rv { dim: n, bounds: None, frac: None }, rv_lattice(n)));
    }
    v.push((Spec::So2 { bounds: None, frac: None }, so2_lattice(thorough)));
    v.push((Spec::So3 { bounds: None, frac: None }, so3_lattice(thorough)));
    // bounded variants: distance and interpolation are the manifold's, whatever the bounds say
    for b in [(-3.0, 3.0), (-2.0, 2.0), (0.5, PI), (-PI, PI)] {
        v.push((Spec::So2 { bounds: Some(b), frac: None }, so2_lattice(thorough)));
    }
    v.push((Spec::So3 { bounds: Some(([0.0, 0.0, 0.0, 1.0], 1.0)), frac: None }, so3_lattice(thorough)));
    v.push((Spec::So3 { bounds: Some((crate::catalog::quat_axis_angle([1.0, 0.0, 0.0], 90.0), 2.0)), frac: None }, so3_lattice(thorough)));
    v.push((Spec::Rv { dim: 2, bounds: Some(vec![(-1.0, 1.0), (0.0, 0.5)]), frac: None }, rv_lattice(2)));
    // spaces whose motion-check resolution was set through the public setter: distance and interpolation
    // are the manifold's, whatever the resolution says
    for f in [1.0, 0.25] {
        v.push((Spec::So3 { bounds: None, frac: Some(f) }, so3_lattice(thorough)));
        v.push((Spec::So2 { bounds: None, frac: Some(f) }, so2_lattice(thorough)));
    }
    v.push((Spec::Rv { dim: 3, bounds: Some(vec![(-1.0, 1.0), (0.0, 0.5), (0.0, 9.0)]), frac: Some(1.0) }, rv_lattice(3)));
    // dimensions beyond one SIMD block and a tail
    for n in [8usize, 9, 13] {
        v.push((Spec::Rv { dim: n, bounds: None, frac: None }, rv_lattice(n)));
    }
    v
}

fn se_spaces() -> Vec<(Spec, Vec<V>)> {
    let mut v = Vec::new();
    for w in [0.0, 1e-3, 0.5, 1.0, 1e3] {
        let s2 = Spec::Se2 { weight: w, bounds: Some(vec![(-5.0, 5.0), (-5.0, 5.0), (-PI, PI)]) };
        let (p2, _) = as_parts(&s2).unwrap();
        v.push((s2, compound_lattice(&p2)));
        let s3 = Spec::Se3 { weight: w, bounds: Some(vec![(-5.0, 5.0), (-5.0, 5.0), (-5.0, 5.0)]) };
        let (p3, _) = as_parts(&s3).unwrap();
        v.push((s3, compound_lattice(&p3)));
    }
    // SE(2) with a bounded angular interval
    let s2 = Spec::Se2 { weight: 0.7, bounds: Some(vec![(-1.0, 2.0), (0.0, 4.0), (-1.0, 2.5)]) };
    let (p2, _) = as_parts(&s2).unwrap();
    v.push((s2, compound_lattice(&p2)));
    // SE(2) whose REQUESTED yaw interval is a full turn long or longer without containing [-pi, pi], reaches
    // beyond it, or is a sliver: the rotation component is whatever SO2StateSpace::new makes of that interval
    for yaw in [(0.0, 2.0 * PI), (-10.0, 1.0), (-1.0, 360.0), (-4.0, 4.0), (3.0, 3.1), (-PI, 0.0)] {
        let s2 = Spec::Se2 { weight: 0.5, bounds: Some(vec![(-5.0, 5.0), (-5.0, 5.0), yaw]) };
        let (p2, _) = as_parts(&s2).unwrap();
        v.push((s2, compound_lattice(&p2)));
    }
    v
}

fn run_space(prop: &str, spec: &Spec, lat: &[V], ts: &[f64], triples: bool) -> Report {
    let mut rep = Report::new();
    match (prop, spec) {
        ("C09", Spec::Rv { .. }) => c09_space::<Rv>(spec, lat, triples, &mut rep),
        ("C09", Spec::So2 { .. }) => c09_space::<So2>(spec, lat, triples, &mut rep),
        ("C09", Spec::So3 { .. }) => c09_space::<So3>(spec, lat, triples, &mut rep),
        ("C09", Spec::Cmp { .. }) => c09_space::<Cmp>(spec, lat, triples, &mut rep),
        ("C09", Spec::Se2 { .. }) => c09_space::<Se2>(spec, lat, triples, &mut rep),
        ("C09", Spec::Se3 { .. }) => c09_space::<Se3>(spec, lat, triples, &mut rep),
        ("C10", Spec::Rv { .. }) => c10_space::<Rv>(spec, lat, ts, &mut rep),
        ("C10", Spec::So2 { .. }) => c10_space::<So2>(spec, lat, ts, &mut rep),
        ("C10", Spec::So3 { .. }) => c10_space::<So3>(spec, lat, ts, &mut rep),
        ("C10", Spec::Cmp { .. }) => c10_space::<Cmp>(spec, lat, ts, &mut rep),
        ("C10", Spec::Se2 { .. }) => c10_space::<Se2>(spec, lat, ts, &mut rep),
        ("C10", Spec::Se3 { .. }) => c10_space::<Se3>(spec, lat, ts, &mut rep),
        ("C13", Spec::Cmp { .. }) => {
            c13_space::<Cmp>(spec, lat, ts, &mut rep, "");
            c13_reweighted(spec, lat, &mut rep);
        }
        ("C13", Spec::Se2 { .. }) => c13_space::<Se2>(spec, lat, ts, &mut rep, "SE2-as-compound:"),
        ("C13", Spec::Se3 { .. }) => c13_space::<Se3>(spec, lat, ts, &mut rep, "SE3-as-compound:"),
        _ => panic!("run_space {prop} {spec:?}"),
    }
    rep.count("spaces", 1);
    rep.sample(|| json!({"space": spec.json(), "lattice_size": lat.len(), "first_states": lat.iter().take(3).map(|v| v.json()).collect::<Vec<_>>()}));
    rep
}

pub fn run(prop: &'static str, tier: &'static str) -> i32 {
    let t0 = Instant::now();
    let thorough = tier != "quick";
    let weights = [0.0, 1e-3, 1.0, 1e3];
    let mut jobs: Vec<(Spec, Vec<V>)> = Vec::new();
    match prop {
        "C09" | "C10" => {
            jobs.extend(primitive_spaces(true));
            for spec in compound_layouts(if thorough { 3 } else { 2 }, &weights, true) {
                let Spec::Cmp { parts, .. } = &spec else { unreachable!() };
                let lat = compound_lattice(parts);
                jobs.push((spec, lat));
            }
            jobs.extend(se_spaces());
        }
        "C13" => {
            for mut spec in compound_layouts(if thorough { 4 } else { 3 }, &weights, false) {
                // give the components bounds so that enforce / satisfies / sample are non-trivial
                if let Spec::Cmp { parts, .. } = &mut spec {
                    for (i, p) in parts.iter_mut().enumerate() {
                        match p {
                            Spec::So2 { bounds, .. } if i % 2 == 1 => *bounds = Some((-1.0, 2.5)),
                            Spec::So3 { bounds, .. } if i % 2 == 0 => *bounds = Some(([0.0, 0.0, 0.0, 1.0], 1.2)),
                            _ => {}
                        }
                    }
                }
                let Spec::Cmp { parts, .. } = &spec else { unreachable!() };
                let lat = compound_lattice(parts);
                jobs.push((spec, lat));
            }
            jobs.extend(se_spaces());
        }
        _ => unreachable!(),
    }
    // compounds used as components (two robots, a robot on a base): the composition law is recursive
    {
        let r1 = Spec::Rv { dim: 1, bounds: Some(vec![(-5.0, 5.0)]), frac: None };
        let r2 = Spec::Rv { dim: 2, bounds: Some(vec![(-5.0, 5.0), (-5.0, 5.0)]), frac: None };
        let so2 = Spec::So2 { bounds: if prop == "C13" { Some((-1.0, 2.5)) } else { None }, frac: None };
        let so3 = Spec::So3 { bounds: None, frac: None };
        let planar = Spec::Cmp { parts: vec![r2.clone(), so2.clone()], weights: vec![1.0, 0.5] };
        let arm = Spec::Cmp { parts: vec![so2.clone(), r1.clone()], weights: vec![2.0, 1.0] };
        let nested: Vec<Spec> = vec![
            Spec::Cmp { parts: vec![planar.clone(), r1.clone()], weights: vec![1.0, 2.0] },
            Spec::Cmp { parts: vec![r1.clone(), planar.clone()], weights: vec![0.5, 3.0] },
            Spec::Cmp { parts: vec![planar.clone(), planar.clone()], weights: vec![1.0, 1.0] },
            Spec::Cmp { parts: vec![r1.clone(), planar.clone(), arm.clone()], weights: vec![1.0, 1.0, 0.5] },
            Spec::Cmp { parts: vec![Spec::Cmp { parts: vec![arm.clone(), so3.clone()], weights: vec![1.0, 0.25] }, r2.clone()], weights: vec![2.0, 1.0] },
        ];
        for spec in nested {
            let Spec::Cmp { parts, .. } = &spec else { unreachable!() };
            let lat = compound_lattice(parts);
            jobs.push((spec, lat));
        }
        // many components (a 9-joint arm; a mobile manipulator): one state per component that differs in
        // that component only, plus the four "all components at lattice point k" states
        {
            let many: Vec<Vec<Spec>> = vec![vec![so2.clone(); 9], {
                let mut v = vec![r2.clone(), so3.clone()];
                v.extend(vec![so2.clone(); 8]);
                v
            }, vec![r1.clone(); 17]];
            for parts in many {
                let subs: Vec<Vec<V>> = parts.iter().map(|p| compound_lattice(std::slice::from_ref(p)).into_iter().map(|v| match v { V::Cmp(mut c) => c.remove(0), other => other }).collect()).collect();
                let mut lat: Vec<V> = (0..4).map(|k| V::Cmp(subs.iter().map(|s| s[k % s.len()].clone()).collect())).collect();
                for i in 0..parts.len() {
                    lat.push(V::Cmp(subs.iter().enumerate().map(|(j, s)| if j == i { s[1 % s.len()].clone() } else { s[0].clone() }).collect()));
                }
                let weights: Vec<f64> = (0..parts.len()).map(|i| [1.0, 0.5, 2.0][i % 3]).collect();
                jobs.push((Spec::Cmp { parts, weights }, lat));
            }
        }
        // coordinates whose differences are subnormal (or vanish when squared): a distance is still a
        // finite non-negative number
        if prop == "C09" {
            for n in [1usize, 2] {
                let cs = [0.0, 1e-310, -1e-310, 5e-324, 1e-200, 1.0];
                let lat: Vec<V> = if n == 1 { cs.iter().map(|c| V::Rv(vec![*c])).collect() } else { cs.iter().flat_map(|a| cs.iter().map(move |b| V::Rv(vec![*a, *b]))).collect() };
                jobs.push((Spec::Rv { dim: n, bounds: None, frac: None }, lat));
            }
        }
        // weights of absurd magnitude (the law is evaluated wherever the textbook formula itself is finite)
        if prop != "C10" {
            for (a, b) in [(1e200, 1.0), (1.0, 1e200)] {
                for parts in [vec![r2.clone(), so2.clone()], vec![so2.clone(), r1.clone()], vec![so3.clone(), r2.clone()], vec![r1.clone(), so3.clone()]] {
                    let lat = compound_lattice(&parts);
                    jobs.push((Spec::Cmp { parts, weights: vec![a, b] }, lat));
                }
            }
            // a tiny weight on a component with huge coordinates: w d is ordinary, w^2 alone underflows
            {
                let big = Spec::Rv { dim: 1, bounds: None, frac: None };
                let lat: Vec<V> = [0.0, 2e150, -1e150].iter().flat_map(|x| [0.0, 3.0].iter().map(move |a| V::Cmp(vec![V::Rv(vec![*x]), V::So2(*a)]))).collect();
                jobs.push((Spec::Cmp { parts: vec![big, so2.clone()], weights: vec![1e-170, 1.0] }, lat));
            }
            for w in [1e200] {
                let s2 = Spec::Se2 { weight: w, bounds: Some(vec![(-5.0, 5.0), (-5.0, 5.0), (-PI, PI)]) };
                let (p2, _) = as_parts(&s2).unwrap();
                jobs.push((s2, compound_lattice(&p2)));
                let s3 = Spec::Se3 { weight: w, bounds: Some(vec![(-5.0, 5.0), (-5.0, 5.0), (-5.0, 5.0)]) };
                let (p3, _) = as_parts(&s3).unwrap();
                jobs.push((s3, compound_lattice(&p3)));
            }
        }
    }
    let ts = t_lattice();
    let rep = jobs
        .par_iter()
        .map(|(spec, lat)| {
            // triples are cubic: all of them for lattices up to 100 states, else the first 64 states
            let lat_t: &[V] = lat;
            // a space operation that unwinds on lattice states is a finding about the space, not about the harness
            match crate::explore::guarded(|| run_space(prop, spec, lat_t, &ts, lat.len() <= 110)) {
                Ok(r) => r,
                Err(crate::explore::Caught::Panic(msg)) => {
                    let mut r = Report::new();
                    let loc = msg.rsplit(" @ ").next().unwrap_or("").rsplit('/').next().unwrap_or("").to_string();
                    let kitname = match spec {
                        Spec::Rv { .. } => "RealVector",
                        Spec::So2 { .. } => "SO2",
                        Spec::So3 { .. } => "SO3",
                        Spec::Cmp { .. } => "Compound",
                        Spec::Se2 { .. } => "SE2",
                        Spec::Se3 { .. } => "SE3",
                    };
                    viol(&mut r, prop, kitname, &format!("panic:{loc}"), spec, format!("a space operation unwound on a lattice state: {msg}"), json!({}));
                    r
                }
                Err(c) => {
                    let mut r = Report::new();
                    r.engine_error(format!("harness trouble in {spec:?}: {c:?}"));
                    r
                }
            }
        })
        .reduce(Report::new, |mut a, b| {
            a.merge(b);
            a
        });
    let mut rep = rep;
    if prop == "C13" {
        match crate::explore::guarded(|| {
            let mut r = Report::new();
            c13_se_inner_replaced(&mut r);
            r
        }) {
            Ok(r) => rep.merge(r),
            Err(c) => rep.engine_error(format!("SE wrappers with a replaced inner space: {c:?}")),
        }
    }
    let meta = CheckMeta {
        prop,
        tier,
        level: "exploration",
        rule: match prop {
            "C09" => "every ordered pair and (for lattices up to 110 states) every triple of a structured state lattice per space; spaces = R^n (n=1,2,3,6), SO(2), SO(3), compound layouts (1..k components in any order x weight tuples), SE(2), SE(3); distinct_nontrivial = distinct (pair, distance value) evaluations",
            "C10" => "every ordered pair of the lattice x the t lattice {0,1e-12,1/4,1/3,1/2,3/4,1-1e-12,1} per space; distinct_nontrivial = distinct interpolation results",
            _ => "every compound layout (1..k components from {R1,R2,SO2,SO3}, any order, weight tuples, component bounds) and SE(2)/SE(3) x every pair of the product lattice x t lattice, compared operation by operation with the component spaces; distinct_nontrivial = distinct (pair, distance) evaluations",
        },
        exhaustive: true,
        bounds: json!({"spaces": jobs.len(), "t_lattice": ts}),
        assumptions: vec![
            "pure functions: no hidden state, so the explored space is the argument lattice".into(),
            "|x| <= 1e150 for R^n coordinates (squares do not overflow)".into(),
            "tolerances as stated in DESIGN C09/C10 (SO(3): 1e-7 for distances, 1e-5 for interpolation)".into(),
            "the random-states clause of the quantifier is a different technique family and is not done".into(),
        ],
        must_be_positive: match prop {
            "C09" => vec!["pairs", "triples", "representation_pairs"],
            "C10" => vec!["antipodal_pairs"],
            _ => vec!["sampling_comparisons", "wild_bounds_states", "wild_enforce_changed", "reweighted_spaces", "replaced_inner_space_states"],
        },
    };
    finish(&meta, rep, t0)
}

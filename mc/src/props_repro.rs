//! C07: seeded planning is a function of (seed, problem, API calls) only. Call histories are
//! enumerated; each is executed with the real samplers and the real seeded RNG under the logical
//! clock, once per ENTROPY ANSWER (the harness owns getrandom): any observable difference between
//! two entropy keys is a dependence on something other than the seed.

use crate::catalog::{base_of, KITS};
use crate::drv::{iters, iters_secs, Pk};
use crate::entropy::{canary, with_entropy};
use crate::explore::guarded;
use crate::kit::Kit;
use crate::report::{finish, h128, CheckMeta, Report};
use crate::scen::{Rig, Scenario};
use crate::seams::GoalMode;
use crate::with_kit;
use rayon::prelude::*;
use serde_json::{json, Value};
use std::time::Instant;

#[derive(Clone, Copy, Debug, PartialEq)]
pub enum Op {
    Setup,
    Solve(usize),
    Construct(usize),
}

fn op_name(o: &Op) -> &'static str {
    match o {
        Op::Setup => "setup",
        Op::Solve(_) => "solve",
        Op::Construct(_) => "construct_roadmap",
    }
}

pub fn histories(pk: Pk, tier: &str) -> Vec<Vec<Op>> {
    let thorough = tier != "quick";
    let mut out = Vec::new();
    if pk == Pk::Prm {
        let cs = if thorough { vec![3, 6, 12] } else { vec![4, 9] };
        for &c in &cs {
            out.push(vec![Op::Setup, Op::Construct(c), Op::Solve(1)]);
            out.push(vec![Op::Setup, Op::Construct(c), Op::Solve(1), Op::Setup, Op::Construct(c), Op::Solve(1)]);
            out.push(vec![Op::Setup, Op::Construct(c), Op::Construct(c), Op::Solve(1), Op::Solve(1)]);
        }
        return out;
    }
    let budgets: Vec<usize> = if thorough { vec![1, 3, 8, 20] } else { vec![1, 7] };
    for &a in &budgets {
        out.push(vec![Op::Setup, Op::Solve(a)]);
        for &b in &budgets {
            out.push(vec![Op::Setup, Op::Solve(a), Op::Solve(b)]);
            out.push(vec![Op::Setup, Op::Solve(a), Op::Setup, Op::Solve(b)]);
            if thorough || a == b {
                out.push(vec![Op::Setup, Op::Solve(a), Op::Solve(b), Op::Solve(a)]);
                out.push(vec![Op::Setup, Op::Setup, Op::Solve(a), Op::Setup, Op::Solve(b), Op::Solve(b)]);
            }
        }
    }
    out
}

#[derive(Clone)]
pub struct Case {
    pub sc: Scenario,
    pub goal_rng: bool,
    pub hist: Vec<Op>,
    /// a sampler failing once, at its k-th call: (true = goal sampler / false = uniform sampler, k)
    pub fault: Option<(bool, usize)>,
}

pub fn cases(tier: &str) -> Vec<Case> {
    let thorough = tier != "quick";
    let seeds: Vec<u64> = if thorough { vec![0, 1, 2, 7, 1 << 63, u64::MAX] } else { vec![0, 7, 1 << 63] };
    let mut out = Vec::new();
    for kit in KITS {
        let b = base_of(kit);
        // goal-overlap: one of the two goal samples is invalid; goal-dead: every goal sample is
        // (RRT-Connect then spends its budget re-sampling the goal root and returns early)
        let mut worlds = vec![
            b.world_named("subset0001", vec![b.obstacles[0].clone()]),
            b.world_named("goal-overlap", vec![b.goal_overlap.clone()]),
            b.world_named("goal-region-entirely-invalid", vec![b.goal_dead.clone()]),
        ];
        if thorough {
            worlds.push(b.world_free());
            worlds.push(b.world_named("subset1111", b.obstacles.clone()));
        }
        for w in &worlds {
            for pk in Pk::ALL {
                for &seed in &seeds {
                    for goal_rng in [false, true] {
                        for bias in [0.05, 0.5] {
                            if pk == Pk::Prm && bias != 0.05 {
                                continue;
                            }
                            let mut p = b.params(pk, if pk == Pk::Prm { 1.6 } else { 0.6 }, 1.5, bias);
                            p.seed = Some(seed);
                            let sc = b.scenario(w.clone(), p, &format!("C07/{kit}/{}/{}/seed{seed}/goalrng{goal_rng}/bias{bias}", w.name, pk.name()));
                            for h in histories(pk, tier) {
                                out.push(Case { sc: sc.clone(), goal_rng, hist: h, fault: None });
                            }
                            // a problem with THREE start states (whatever a planner does with the others is a
                            // function of the seed, not of the thread generator)
                            if w.name == "subset0001" && bias == 0.05 {
                                let mut sc3 = sc.clone();
                                sc3.extra_starts = vec![b.alphabet[b.sub3[1] as usize].clone(), b.alphabet[b.sub3[2] as usize].clone()];
                                sc3.tag = format!("{}/three-starts", sc.tag);
                                let h = if pk == Pk::Prm { vec![Op::Setup, Op::Construct(12), Op::Solve(1), Op::Setup, Op::Construct(12), Op::Solve(1)] } else { vec![Op::Setup, Op::Solve(12), Op::Setup, Op::Solve(12), Op::Solve(6)] };
                                out.push(Case { sc: sc3, goal_rng, hist: h, fault: None });
                            }
                            // a narrow rotation cone (long runs of rejected draws inside the space's sampler):
                            // a rarely taken branch of a sampler must draw from the seeded generator too
                            if kit == "SO3" && w.name == "subset0001" && bias == 0.05 {
                                for r in [0.5, 0.35] {
                                    let mut sc2 = sc.clone();
                                    sc2.spec = crate::kit::Spec::So3 { bounds: Some(([0.0, 0.0, 0.0, 1.0], r)), frac: None };
                                    sc2.tag = format!("{}/cone{r}", sc.tag);
                                    out.push(Case { sc: sc2.clone(), goal_rng, hist: vec![Op::Setup, Op::Solve(if pk == Pk::Prm { 1 } else { 25 }), Op::Solve(if pk == Pk::Prm { 1 } else { 25 })], fault: None });
                                    if pk == Pk::Prm {
                                        out.push(Case { sc: sc2, goal_rng, hist: vec![Op::Setup, Op::Construct(25), Op::Solve(1)], fault: None });
                                    }
                                }
                            }
                            // a sampler that fails once in the middle of a history: the call that meets
                            // the failure ends early, and the calls after it must still be a function
                            // of the seed (one world and two seeds are enough for this dimension)
                            if w.name == "subset0001" && (seed == 0 || seed == 7) && pk != Pk::Prm {
                                let ks: &[usize] = if thorough { &[0, 1, 2, 3, 5, 8] } else { &[0, 1, 3] };
                                for &k in ks {
                                    for goal_fault in [true, false] {
                                        for h in [vec![Op::Setup, Op::Solve(6), Op::Solve(6), Op::Solve(6)], vec![Op::Setup, Op::Solve(2), Op::Solve(9), Op::Setup, Op::Solve(5), Op::Solve(5)]] {
                                            out.push(Case { sc: sc.clone(), goal_rng, hist: h, fault: Some((goal_fault, k)) });
                                        }
                                    }
                                }
                            }
                        }
                    }
                }
            }
        }
    }
    out
}

fn sampler_warm_up<K: Kit>(spec: &crate::kit::Spec) {
    use oxmpl::base::space::StateSpace;
    use rand::SeedableRng;
    let _ = guarded(|| {
        let sp = K::build(spec);
        let mut r = rand::rngs::StdRng::seed_from_u64(0xD0);
        for _ in 0..3 {
            let _ = sp.sample_uniform(&mut r);
        }
    });
}

/// Another problem for the same kind of space: other resolution, other weights / bounds, other seed.
fn decoy_of(case: &Case) -> Case {
    use crate::kit::Spec;
    fn alter(s: &Spec) -> Spec {
        match s {
            Spec::Rv { dim, bounds, .. } => Spec::Rv { dim: *dim, bounds: bounds.as_ref().map(|b| b.iter().map(|(l, u)| (*l - 3.0, *u + 5.0)).collect()), frac: Some(0.9) },
            Spec::So2 { .. } => Spec::So2 { bounds: None, frac: Some(0.9) },
            Spec::So3 { .. } => Spec::So3 { bounds: None, frac: Some(0.9) },
            Spec::Cmp { parts, weights } => Spec::Cmp { parts: parts.iter().map(alter).collect(), weights: weights.iter().map(|w| w * 7.0 + 1.0).collect() },
            Spec::Se2 { weight, bounds } => Spec::Se2 { weight: weight * 7.0 + 1.0, bounds: bounds.as_ref().map(|b| b.iter().enumerate().map(|(i, (l, u))| if i < 2 { (*l - 3.0, *u + 5.0) } else { (*l, *u) }).collect()) },
            Spec::Se3 { weight, bounds } => Spec::Se3 { weight: weight * 7.0 + 1.0, bounds: bounds.as_ref().map(|b| b.iter().map(|(l, u)| (*l - 3.0, *u + 5.0)).collect()) },
        }
    }
    let mut d = case.clone();
    d.sc.spec = alter(&case.sc.spec);
    d.sc.params.seed = Some(case.sc.params.seed.unwrap_or(0) ^ 0x5eed);
    d.fault = None;
    d
}

/// Executes the history; returns one digest per call (result + snapshot + sampled states so far).
fn execute<K: Kit>(case: &Case) -> Vec<u128> {
    let sc = &case.sc;
    let mut out = Vec::new();
    let r = guarded(|| {
        let mut rig = Rig::<K>::new(sc, false);
        rig.pass_through();
        rig.logging(true);
        rig.goal_mode(if case.goal_rng { GoalMode::Rng } else { GoalMode::Cycle });
        match case.fault {
            Some((true, k)) => rig.goal.fail_at.set(Some((k, 0))),
            Some((false, k)) => rig.space.fail_at.set(Some((k, 1))),
            None => {}
        }
        let mut digests = Vec::new();
        for op in &case.hist {
            let mut w: Vec<u64> = Vec::new();
            oxmpl::verif::clock_reset(1_000_000);
            match op {
                Op::Setup => {
                    let (pd, world) = (rig.pd.clone(), rig.world.clone());
                    rig.drv.setup(pd, world);
                    w.push(1);
                }
                Op::Solve(n) => {
                    let t = if rig.is_prm() { crate::explore::LONG } else { iters(*n) };
                    match rig.drv.solve(t) {
                        Ok(p) => {
                            w.push(2);
                            for s in &p {
                                K::enc(s, &mut w);
                            }
                        }
                        Err(e) => w.push(100 + crate::drv::err_name(&e).len() as u64),
                    }
                }
                Op::Construct(n) => {
                    rig.drv.set_prm_timeout(iters_secs(*n));
                    match rig.drv.construct_roadmap() {
                        Ok(()) => w.push(3),
                        Err(e) => w.push(200 + crate::drv::err_name(&e).len() as u64),
                    }
                }
            }
            w.extend(rig.snapshot().key());
            for (_, s) in rig.space.log.borrow().iter() {
                K::enc(s, &mut w);
            }
            for (_, s) in rig.goal.sample_log.borrow().iter() {
                K::enc(s, &mut w);
            }
            w.push(rig.world.calls.get());
            digests.push(h128(&w));
        }
        digests
    });
    match r {
        Ok(d) => out = d,
        Err(_) => out.push(0xdead),
    }
    out
}

fn run_case(case: &Case, idx: usize, tier: &str, rep: &mut Report) {
    let kit = case.sc.kit;
    let exec = |key: u64| with_entropy(key, || with_kit!(kit, execute(case)));
    let (a, ea) = exec(0xA11CE);
    let (a2, _) = exec(0xA11CE);
    let (b, eb) = exec(0xB0B);
    // the same history on a thread that has ALREADY planned something else (another problem in a space
    // of another resolution / weighting, then dropped): per-thread or per-process caches, address-keyed
    // memo tables and the like must not carry anything over
    let (w, _) = with_entropy(0xA11CE, || {
        let decoy = decoy_of(case);
        let _ = with_kit!(kit, execute(&decoy));
        // ... and has used the SAME kind of sampler with another generator, an odd number of times (a value
        // parked between calls - the second deviate of a polar-method pair - would be left over)
        with_kit!(kit, sampler_warm_up(&case.sc.spec));
        with_kit!(kit, execute(case))
    });
    rep.count("evaluations", 3);
    rep.count("histories", 1);
    if case.fault.is_some() {
        rep.count("histories_with_a_sampler_failure", 1);
    }
    rep.count("transitions", case.hist.len() as u64);
    rep.count("entropy_requests_observed", ea + eb);
    if ea + eb == 0 {
        rep.count("histories_without_entropy_requests", 1);
    }
    rep.distinct.insert(h128(&a.iter().flat_map(|d| [*d as u64, (*d >> 64) as u64]).collect::<Vec<_>>()));
    if a != a2 {
        // Two runs with the same seed, the same calls AND the same entropy answers differ. Every input the
        // harness owns was identical (that the harness itself is deterministic is shown by this very
        // comparison succeeding on every other history and on the unchanged tree), so the planner consulted
        // something else - the real clock, an address, a global. That is what C07 forbids.
        let (a3, _) = exec(0xA11CE);
        let at = a.iter().zip(&a2).position(|(x, y)| x != y).unwrap_or(0);
        let pk = case.sc.params.pk;
        rep.violate(format!("C07|{}|nondeterministic-under-identical-inputs", pk.name()), format!("two runs with the same seed, calls and entropy answers differ at call #{at} (a third run {} the first): the result depends on something outside the seed, the problem and the calls", if a3 == a { "agrees with" } else { "differs from" }), || {
            json!({"kind": "repro", "prop": "C07", "tier": tier, "case_index": idx, "scenario": case.sc.json(), "history": format!("{:?}", case.hist), "first_divergent_call": at, "identical_inputs": true})
        });
        return;
    }
    if a.contains(&0xdead) || b.contains(&0xdead) {
        // unwinding is C08's subject; here it only means the comparison is void
        rep.count("histories_that_unwound", 1);
        return;
    }
    rep.count("traces_validated", 1);
    if w != a && !w.contains(&0xdead) {
        let at = a.iter().zip(&w).position(|(x, y)| x != y).unwrap_or(0);
        let pk = case.sc.params.pk;
        rep.violate(format!("C07|{}|depends-on-what-the-thread-did-before|{}", pk.name(), op_name(&case.hist[at.min(case.hist.len() - 1)])), format!("the same seeded history gives different observations (first at call #{at}) on a thread that planned another problem before: something outlives the planner and the problem"), || {
            json!({"kind": "repro", "prop": "C07", "tier": tier, "case_index": idx, "scenario": case.sc.json(), "history": format!("{:?}", case.hist), "first_divergent_call": at, "after_decoy": true})
        });
        return;
    }
    rep.count("histories_repeated_after_a_decoy", 1);
    if a != b {
        let at = a.iter().zip(&b).position(|(x, y)| x != y).unwrap_or(0);
        let op = &case.hist[at];
        let nth = case.hist[..=at].iter().filter(|o| op_name(o) == op_name(op)).count();
        let pk = case.sc.params.pk;
        let what = format!(
            "two instances with the same seed and the same calls differ at call #{at} ({} no. {nth}) when the OS entropy differs: the result is not a function of the seed",
            op_name(op)
        );
        if case.fault.is_some() {
            rep.count("divergences_after_a_sampler_failure", 1);
        }
        let fk = match case.fault {
            None => "",
            Some((true, _)) => "|after-goal-sampler-failure",
            Some((false, _)) => "|after-uniform-sampler-failure",
        };
        rep.violate(format!("C07|{}|diverges-at:{}#{nth}|goal-sampler-uses-rng={}{fk}", pk.name(), op_name(op), case.goal_rng), what, || {
            json!({"kind": "repro", "prop": "C07", "tier": tier, "case_index": idx, "scenario": case.sc.json(), "history": format!("{:?}", case.hist), "sampler_fault": format!("{:?}", case.fault), "first_divergent_call": at})
        });
    }
    rep.sample(|| json!({"scenario": case.sc.tag, "history": format!("{:?}", case.hist), "entropy_requests": [ea, eb], "equal": a == b}));
}

/// The ordered trace of sampler answers of one run: (from the goal sampler?, state bits).
fn sampler_trace<K: Kit>(rig: &Rig<K>) -> Vec<(bool, Vec<u64>)> {
    let mut t: Vec<(u64, bool, Vec<u64>)> = rig.space.log.borrow().iter().map(|(q, s)| (*q, false, K::bits(s))).collect();
    t.extend(rig.goal.sample_log.borrow().iter().map(|(q, s)| (*q, true, K::bits(s))));
    t.sort_by_key(|x| x.0);
    t.into_iter().map(|(_, g, b)| (g, b)).collect()
}

/// "Wall-clock time may only affect how many iterations complete, never which decisions are taken":
/// the same seeded instance is run under logical clocks of different speed (1, 2 and 4 ms per deadline
/// check, same time limit). The slower clock completes fewer iterations; its ordered trace of sampler
/// answers (which sampler was asked, and what it returned) must be a PREFIX of the faster clock's trace,
/// and if it found a path the faster run returns the same path.
fn clock_case<K: Kit>(sc: &Scenario, goal_rng: bool, budget: usize, rep: &mut Report) {
    let run = |tick_ns: u64| {
        guarded(|| {
            let mut rig = Rig::<K>::new(sc, true);
            rig.pass_through();
            rig.logging(true);
            rig.goal_mode(if goal_rng { GoalMode::Rng } else { GoalMode::Cycle });
            oxmpl::verif::clock_reset(tick_ns);
            let res = if rig.is_prm() {
                rig.drv.set_prm_timeout(iters_secs(budget));
                let c = rig.drv.construct_roadmap();
                c.map(|_| vec![])
            } else {
                let first = rig.drv.solve(iters(budget));
                // a second call on the same object: whatever the first call left behind when its time
                // ran out must be what an uninterrupted run would have had at that point
                oxmpl::verif::clock_reset(tick_ns);
                let _ = rig.drv.solve(iters(budget / 2 + 1));
                first
            };
            let path: Option<Vec<Vec<u64>>> = res.as_ref().ok().map(|p| p.iter().map(|s| K::bits(s)).collect());
            // the states of the nodes / milestones in insertion order
            let nodes: Vec<Vec<Vec<u64>>> = match rig.snapshot() {
                crate::drv::Snap::Tree(t) => vec![t.iter().map(|(s, _, _)| K::bits(s)).collect()],
                crate::drv::Snap::Two(a, b) => vec![a.iter().map(|(s, _, _)| K::bits(s)).collect(), b.iter().map(|(s, _, _)| K::bits(s)).collect()],
                crate::drv::Snap::Roadmap(r) => vec![r.iter().map(|(s, _)| K::bits(s)).collect()],
            };
            (sampler_trace::<K>(&rig), path, nodes)
        })
    };
    // Where a call is cut must not matter either: N iterations in one call against the same N iterations
    // cut into two calls after k of them (every k of a small lattice, odd and even): same trees, bit for
    // bit, and the same sampler trace - "time only affects how many iterations complete".
    if !sc.params.pk.eq(&crate::drv::Pk::Prm) {
        let split_run = |cuts: &[usize]| {
            guarded(|| {
                let mut rig = Rig::<K>::new(sc, true);
                rig.pass_through();
                rig.logging(true);
                rig.goal_mode(if goal_rng { GoalMode::Rng } else { GoalMode::Cycle });
                let mut all_timeout = true;
                for &n in cuts {
                    oxmpl::verif::clock_reset(1_000_000);
                    if rig.drv.solve(iters(n)).is_ok() {
                        all_timeout = false;
                        break;
                    }
                }
                (all_timeout, rig.snapshot().key(), sampler_trace::<K>(&rig))
            })
        };
        let n = budget.min(24);
        if let Ok((true, key_one, trace_one)) = split_run(&[n]) {
            for k in [1usize, 2, 3, n / 2, n / 2 + 1, n - 1] {
                if k == 0 || k >= n {
                    continue;
                }
                rep.count("evaluations", 1);
                if let Ok((true, key_two, trace_two)) = split_run(&[k, n - k]) {
                    rep.count("cut_call_comparisons", 1);
                    if key_two != key_one || trace_two != trace_one {
                        let pk = sc.params.pk;
                        rep.violate(format!("C07|{}|depends-on-where-the-call-was-cut", pk.name()), format!("{n} iterations in one call and the same {n} iterations cut into two calls after {k} of them leave different trees (or ask the samplers differently): where the deadline fell changed a decision"), || {
                            json!({"kind": "repro-clock", "prop": "C07", "scenario": sc.json(), "goal_sampler_uses_rng": goal_rng, "iterations": n, "cut_after": k})
                        });
                        return;
                    }
                }
            }
        }
    }
    rep.count("clock_perturbation_cases", 1);
    rep.count("evaluations", 3);
    let (Ok(fast), Ok(mid), Ok(slow)) = (run(1_000_000), run(2_000_000), run(4_000_000)) else {
        rep.count("histories_that_unwound", 1);
        return;
    };
    rep.count("traces_validated", 1);
    for (name, a, b) in [("2ms-vs-1ms", &mid, &fast), ("4ms-vs-2ms", &slow, &mid)] {
        let (ta, pa, na) = a;
        let (tb, pb, nb) = b;
        let prefix = ta.len() <= tb.len() && ta.iter().zip(tb.iter()).all(|(x, y)| x == y);
        let pk = sc.params.pk;
        if !prefix {
            let at = ta.iter().zip(tb.iter()).position(|(x, y)| x != y).unwrap_or(ta.len().min(tb.len()));
            rep.violate(format!("C07|{}|clock-dependent-decisions|{name}", pk.name()), format!("with a slower logical clock ({name}) the trace of sampler answers is not a prefix of the faster clock's trace (first difference at draw {at}; {} vs {} draws): elapsed time influenced a decision", ta.len(), tb.len()), || {
                json!({"kind": "repro-clock", "prop": "C07", "scenario": sc.json(), "goal_sampler_uses_rng": goal_rng, "budget_iterations": budget, "first_difference_at_draw": at})
            });
            return;
        }
        if ta.len() < tb.len() {
            rep.count("clock_runs_with_fewer_iterations", 1);
        }
        // RRT / RRT* / PRM append nodes in iteration order (RRT-Connect's two trees interleave, and the
        // goal-root re-sampling depends on the budget, so it is judged by its sampler trace only): the run
        // that completed fewer iterations has a prefix of the other run's nodes
        if pk != crate::drv::Pk::Connect {
            for (x, y) in na.iter().zip(nb.iter()) {
                let prefix = x.len() <= y.len() && x.iter().zip(y.iter()).all(|(p, q)| p == q);
                if !prefix {
                    let at = x.iter().zip(y.iter()).position(|(p, q)| p != q).unwrap_or(x.len().min(y.len()));
                    rep.violate(format!("C07|{}|clock-dependent-tree|{name}", pk.name()), format!("with a slower logical clock ({name}) the nodes are not a prefix of the faster clock's nodes (first difference at node {at}; {} vs {} nodes): where the deadline fell changed what an iteration did", x.len(), y.len()), || {
                        json!({"kind": "repro-clock", "prop": "C07", "scenario": sc.json(), "goal_sampler_uses_rng": goal_rng, "budget_iterations": budget, "first_difference_at_node": at})
                    });
                    return;
                }
            }
        }
        if let (Some(x), false) = (pa, pk == crate::drv::Pk::Prm) {
            if pb.as_ref() != Some(x) {
                rep.violate(format!("C07|{}|clock-dependent-result|{name}", pk.name()), "the slower clock found a path that the faster clock (same decisions, more iterations) does not return".to_string(), || {
                    json!({"kind": "repro-clock", "prop": "C07", "scenario": sc.json(), "goal_sampler_uses_rng": goal_rng, "budget_iterations": budget})
                });
                return;
            }
        }
    }
}

fn clock_cases(tier: &str, rep: &mut Report) {
    let thorough = tier != "quick";
    let seeds: Vec<u64> = if thorough { (0..16).collect() } else { vec![0, 3, 7] };
    let mut jobs: Vec<(Scenario, bool, usize)> = Vec::new();
    for kit in KITS {
        let b = base_of(kit);
        for w in [b.world_named("subset0001", vec![b.obstacles[0].clone()]), b.world_named("goal-sealed-off", vec![b.seal_goal.clone()])] {
            for pk in Pk::ALL {
                for &seed in &seeds {
                    for bias in [0.05, 0.4] {
                        if pk == Pk::Prm && bias != 0.05 {
                            continue;
                        }
                        let mut p = b.params(pk, if pk == Pk::Prm { 1.6 } else { 0.6 }, 1.5, bias);
                        p.seed = Some(seed);
                        let sc = b.scenario(w.clone(), p, &format!("C07/clock/{kit}/{}/{}/seed{seed}/bias{bias}", w.name, pk.name()));
                        for budget in if thorough { vec![16, 40, 100] } else { vec![40] } {
                            jobs.push((sc.clone(), seed % 2 == 0, budget));
                        }
                    }
                }
            }
        }
    }
    let r = jobs
        .par_iter()
        .map(|(sc, goal_rng, budget)| {
            let mut rep = Report::new();
            with_kit!(sc.kit, clock_case(sc, *goal_rng, *budget, &mut rep));
            rep
        })
        .reduce(Report::new, |mut a, b| {
            a.merge(b);
            a
        });
    rep.merge(r);
}

pub fn run(tier: &'static str) -> i32 {
    let t0 = Instant::now();
    let mut rep = Report::new();
    clock_cases(tier, &mut rep);
    if !canary() {
        rep.engine_error("entropy interposition did not engage (getrandom symbol not resolved to the harness)".into());
    }
    let all = cases(tier);
    rep.count("cases", all.len() as u64);
    let r = all
        .par_iter()
        .enumerate()
        .map(|(i, c)| {
            let mut rep = Report::new();
            run_case(c, i, tier, &mut rep);
            rep
        })
        .reduce(Report::new, |mut a, b| {
            a.merge(b);
            a
        });
    rep.merge(r);
    let meta = CheckMeta {
        prop: "C07",
        tier,
        level: "model_checking",
        rule: "call histories over {setup, solve(budget), re-setup, repeated solve, construct_roadmap} x 4 planners x 6 spaces x worlds x seed lattice x goal samplers that do / do not consume RNG words x goal bias {0.05, 0.5}, run with the REAL samplers and seeded RNG under the logical clock; the environment alphabet is the OS-entropy answer: every history is executed under entropy key A (twice) and key B on fresh threads; plus clock perturbation: the same seeded run under logical clocks of 1 / 2 / 4 ms per deadline check - the slower run's ordered trace of sampler answers must be a prefix of the faster run's; states = distinct observation vectors; transitions = API calls executed",
        exhaustive: true,
        bounds: json!({"cases": all.len()}),
        assumptions: vec![
            "getrandom / ThreadRng / RandomState are all fed by the harness's exported getrandom symbol (canary-checked at start)".into(),
            "equal logical-clock budgets stand for `equal sample counts` of the quantifier".into(),
        ],
        must_be_positive: vec!["traces_validated", "histories", "clock_perturbation_cases", "clock_runs_with_fewer_iterations", "cut_call_comparisons"],
    };
    finish(&meta, rep, t0)
}

pub fn replay_file(v: &Value) -> i32 {
    let tier = v["tier"].as_str().unwrap_or("quick").to_string();
    let idx = v["case_index"].as_u64().unwrap() as usize;
    let all = cases(&tier);
    let mut rep = Report::new();
    run_case(&all[idx], idx, &tier, &mut rep);
    if !rep.engine_errors.is_empty() {
        crate::report::out("ENGINE-ERROR: replay is not deterministic");
        return 2;
    }
    if rep.viol_counts.is_empty() {
        crate::report::out("replay: property C07 holds on this history");
        0
    } else {
        for v in &rep.violations {
            crate::report::out(&format!("replay: {} -- {}", v.key, v.what));
        }
        crate::report::out("VIOLATION property=C07 replay=(replayed)");
        1
    }
}

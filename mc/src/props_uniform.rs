//! C14: uniform sampling is uniform — decided without statistics. The sampler is a deterministic
//! function of the RNG words; the harness feeds it EVERY tuple of a mid-point lattice of words
//! through a scripted RngCore and compares the push-forward with the exact law: exact equal counts
//! per bin for product laws, a quadrature bound against (theta - sin theta)/pi for SO(3).

use crate::explore::guarded;
use crate::kit::{Cmp, Kit, Rv, Se2, Se3, So2, So3, Spec, V};
use crate::refspace::{self, so3_dist};
use crate::report::{finish, h128, CheckMeta, Report};
use crate::rngseam::{word_for_unit, WordRng};
use oxmpl::base::space::StateSpace;
use rayon::prelude::*;
use serde_json::{json, Value};
use std::f64::consts::PI;
use std::time::Instant;

fn viol(rep: &mut Report, key: &str, what: String, detail: Value) {
    rep.violate(format!("C14|{key}"), what, || json!({"kind": "uniform", "prop": "C14", "detail": detail}));
}

fn midpoints(k: usize) -> Vec<u64> {
    (0..k).map(|i| word_for_unit((i as f64 + 0.5) / k as f64)).collect()
}

/// scalar coordinates of the non-SO(3) parts, each mapped to [0,1) by its bounds
fn unit_coords(spec: &Spec, v: &V, out: &mut Vec<f64>) {
    match (spec, v) {
        (Spec::Rv { bounds, .. }, V::Rv(x)) => {
            let b = bounds.as_ref().expect("bounded");
            for (c, (l, u)) in x.iter().zip(b) {
                // (halved first: the width of a representable box may overflow)
                out.push((c / 2.0 - l / 2.0) / (u / 2.0 - l / 2.0));
            }
        }
        (Spec::So2 { bounds, .. }, V::So2(a)) => {
            let (l, u) = refspace::so2_bounds(bounds);
            out.push((a - l) / (u - l));
        }
        (Spec::So3 { .. }, _) => {}
        (_, V::Cmp(c)) => {
            let (parts, _) = refspace::as_parts(spec).unwrap();
            for (p, x) in parts.iter().zip(c) {
                unit_coords(p, x, out);
            }
        }
        _ => panic!("unit_coords mismatch"),
    }
}

/// Fallback when a sampler does not consume the generator the way the exhaustive lattice assumes (a
/// different but possibly correct scheme): real StdRng streams over a seed lattice; every scalar
/// coordinate's CDF within 6 sigma of uniform, every sample inside the bounds, and coordinates of
/// DIFFERENT components uncorrelated within 6 / sqrt(N). Returns what it found wrong, if anything.
pub fn generic_stream_audit<K: Kit>(spec: &Spec) -> Result<u64, String> {
    generic_stream_audit_n::<K>(spec, 48, 800)
}

pub fn generic_stream_audit_n<K: Kit>(spec: &Spec, seeds: u64, per: usize) -> Result<u64, String> {
    use rand::SeedableRng;
    let rows: Vec<Vec<(Vec<f64>, Vec<usize>, bool)>> = (0..seeds)
        .into_par_iter()
        .map(|seed| {
            let sp = K::build(spec);
            let mut rng = rand::rngs::StdRng::seed_from_u64(seed);
            (0..per)
                .filter_map(|_| sp.sample_uniform(&mut rng).ok())
                .map(|s| {
                    let v = K::to_v(&s);
                    // coordinates tagged with the index of the component they belong to
                    let mut xs = Vec::new();
                    let mut owner = Vec::new();
                    let parts: Vec<(Spec, V)> = match (&v, refspace::as_parts(spec)) {
                        (V::Cmp(c), Some((ps, _))) => ps.into_iter().zip(c.iter().cloned()).collect(),
                        _ => vec![(spec.clone(), v.clone())],
                    };
                    for (ci, (ps, pv)) in parts.iter().enumerate() {
                        let mut u = Vec::new();
                        match pv {
                            V::So3(q) => u.extend(q.iter().map(|c| 0.5 * (c + 1.0))),
                            _ => unit_coords(ps, pv, &mut u),
                        }
                        owner.extend(std::iter::repeat(ci).take(u.len()));
                        xs.extend(u);
                    }
                    (xs, owner, sp.satisfies_bounds(&s))
                })
                .collect()
        })
        .collect();
    let all: Vec<(Vec<f64>, Vec<usize>, bool)> = rows.into_iter().flatten().collect();
    if all.len() != (seeds as usize) * per {
        return Err("the sampler failed on a real generator stream".into());
    }
    if all.iter().any(|(_, _, ok)| !ok) {
        return Err("a streamed sample violates the bounds".into());
    }
    let n = all.len() as f64;
    let d = all[0].0.len();
    let owner = all[0].1.clone();
    let scalar: Vec<bool> = {
        // SO(3) coordinates are not uniform on [0,1]: only the product-law coordinates get the CDF check
        let (parts, single): (Vec<Spec>, bool) = match refspace::as_parts(spec) {
            Some((ps, _)) => (ps, false),
            None => (vec![spec.clone()], true),
        };
        let _ = single;
        owner.iter().map(|&ci| !matches!(parts[ci], Spec::So3 { .. })).collect()
    };
    for i in 0..d {
        if !scalar[i] {
            continue;
        }
        for e in 1..10 {
            let edge = e as f64 / 10.0;
            let emp = all.iter().filter(|r| r.0[i] <= edge).count() as f64 / n;
            if (emp - edge).abs() > 6.0 * (edge * (1.0 - edge) / n).sqrt() {
                return Err(format!("coordinate {i}: empirical CDF {emp:.4} at {edge} is more than 6 sigma from uniform"));
            }
        }
    }
    let mean: Vec<f64> = (0..d).map(|i| all.iter().map(|r| r.0[i]).sum::<f64>() / n).collect();
    let var: Vec<f64> = (0..d).map(|i| all.iter().map(|r| (r.0[i] - mean[i]).powi(2)).sum::<f64>() / n).collect();
    for i in 0..d {
        for j in (i + 1)..d {
            if owner[i] == owner[j] || var[i] <= 0.0 || var[j] <= 0.0 {
                continue;
            }
            let cov = all.iter().map(|r| (r.0[i] - mean[i]) * (r.0[j] - mean[j])).sum::<f64>() / n;
            let corr = cov / (var[i] * var[j]).sqrt();
            if corr.abs() > 6.0 / n.sqrt() {
                return Err(format!("coordinates {i} and {j} of different components have correlation {corr:.4} over {} samples: the components are not sampled independently", all.len()));
            }
            // dependence that is not linear: 4 x 4 table over the empirical quartiles of each coordinate
            // (the marginals are then exact, so only independence is judged): every cell n/16 within 6 sigma
            let quart = |k: usize| {
                let mut v: Vec<f64> = all.iter().map(|r| r.0[k]).collect();
                v.sort_by(|a, b| a.partial_cmp(b).unwrap());
                [v[v.len() / 4], v[v.len() / 2], v[3 * v.len() / 4]]
            };
            let (qi, qj) = (quart(i), quart(j));
            if qi[0] < qi[1] && qi[1] < qi[2] && qj[0] < qj[1] && qj[1] < qj[2] {
                let bin = |q: &[f64; 3], x: f64| q.iter().filter(|e| x >= **e).count();
                let mut cells = [0u64; 16];
                for r in &all {
                    cells[bin(&qi, r.0[i]) * 4 + bin(&qj, r.0[j])] += 1;
                }
                let want = n / 16.0;
                let sd = (n * (1.0 / 16.0) * (15.0 / 16.0)).sqrt();
                if let Some((c, v)) = cells.iter().enumerate().find(|(_, v)| (**v as f64 - want).abs() > 6.0 * sd) {
                    return Err(format!("coordinates {i} and {j} of different components: quartile cell {c} holds {v} of {} samples (independence puts {want:.0} +- {sd:.0} there): the components are not sampled independently", all.len()));
                }
            }
        }
    }
    Ok(all.len() as u64)
}

fn overflowing_width(spec: &Spec) -> bool {
    match spec {
        Spec::Rv { bounds: Some(b), .. } => b.iter().any(|(l, u)| l.is_finite() && u.is_finite() && !(u - l).is_finite()),
        _ => false,
    }
}

/// Product-law check: every tuple of the K^d mid-point lattice; B bins per coordinate, B | K.
fn product_check<K: Kit>(spec: &Spec, d: usize, k: usize, b: usize, rep: &mut Report) {
    product_check_sp::<K>(spec, K::build(spec), d, k, b, rep)
}

/// As `product_check`, for a space object handed in (e.g. one whose public `bounds` field was
/// edited after construction, or a clone of such a space); `spec` describes the bounds it has NOW.
fn product_check_sp<K: Kit>(spec: &Spec, sp: K::SP, d: usize, k: usize, b: usize, rep: &mut Report) {
    assert!(k % b == 0);
    let words = midpoints(k);
    let total = k.pow(d as u32);
    let mut n_coords = 0usize;
    let mut one: Vec<Vec<u64>> = Vec::new();
    let mut two: Vec<Vec<u64>> = Vec::new(); // pair (i<j) -> b*b counts
    let mut idx = vec![0usize; d];
    let mut first = true;
    let mut bad_draws = 0u64;
    let mut outside = 0u64;
    for t in 0..total {
        let mut r = t;
        for i in 0..d {
            idx[i] = r % k;
            r /= k;
        }
        let script: Vec<u64> = idx.iter().map(|&i| words[i]).collect();
        let mut rng = WordRng::new(script);
        rng.cap = 64;
        let s = match guarded(|| sp.sample_uniform(&mut rng)) {
            Ok(Ok(s)) => s,
            Ok(Err(oxmpl::base::error::StateSamplingError::UnboundedDimension { .. })) if overflowing_width(spec) => {
                // the documented refusal for a box whose width is not representable: nothing to judge
                rep.count("overflowing_width_refused", 1);
                return;
            }
            _ => {
                viol(rep, &format!("{}|sampler-failed", K::NAME), "sample_uniform failed or unwound on a lattice tuple".into(), json!({"space": spec.json(), "tuple_index": t}));
                return;
            }
        };
        if rng.drawn as usize != d {
            bad_draws += 1;
        }
        let mut u = Vec::new();
        unit_coords(spec, &K::to_v(&s), &mut u);
        if first {
            n_coords = u.len();
            one = vec![vec![0; b]; n_coords];
            two = vec![vec![0; b * b]; n_coords * n_coords];
            first = false;
        }
        rep.count("evaluations", 1);
        let bins: Vec<usize> = u
            .iter()
            .map(|x| {
                if !(*x >= 0.0 && *x < 1.0) {
                    outside += 1;
                }
                ((x * b as f64).floor() as isize).clamp(0, b as isize - 1) as usize
            })
            .collect();
        for i in 0..n_coords {
            one[i][bins[i]] += 1;
            for j in (i + 1)..n_coords {
                two[i * n_coords + j][bins[i] * b + bins[j]] += 1;
            }
        }
        if t % 4099 == 0 {
            rep.distinct.insert(h128(&K::bits(&s)));
        }
    }
    rep.count("product_lattices", 1);
    let det = |extra: Value| json!({"space": spec.json(), "K": k, "d": d, "B": b, "more": extra});
    if bad_draws > 0 {
        // the sampler consumes its generator differently from what the lattice assumes: that may be a
        // correct scheme, so the lattice verdicts are void and the law is audited on real streams instead
        rep.count("lattices_replaced_by_stream_audit", 1);
        match generic_stream_audit::<K>(spec) {
            Ok(n) => rep.count("evaluations", n),
            Err(e) => viol(rep, &format!("{}|stream-audit|law", K::NAME), format!("the sampler does not consume {d} words per sample, and on real generator streams: {e}"), det(json!({}))),
        }
        return;
    }
    if outside > 0 {
        viol(rep, &format!("{}|sample-outside-region", K::NAME), format!("{outside} samples fall outside [lower, upper)"), det(json!({})));
    }
    if n_coords != d {
        rep.engine_error(format!("{spec:?}: {n_coords} coordinates for {d} words"));
        return;
    }
    let want1 = (total / b) as u64;
    for i in 0..n_coords {
        rep.count("marginal_bins_checked", b as u64);
        if one[i].iter().any(|&c| c != want1) {
            viol(rep, &format!("{}|marginal-bin-count", K::NAME), format!("coordinate {i}: bin counts {:?}, the uniform law puts exactly {want1} lattice points in each", one[i]), det(json!({"coordinate": i})));
        }
        for j in (i + 1)..n_coords {
            let want2 = (total / (b * b)) as u64;
            rep.count("pair_bins_checked", (b * b) as u64);
            if two[i * n_coords + j].iter().any(|&c| c != want2) {
                viol(rep, &format!("{}|pair-bin-count", K::NAME), format!("coordinates {i},{j} are not independent-uniform on the lattice (expected {want2} per cell)"), det(json!({"coordinates": [i, j]})));
            }
        }
    }
    rep.sample(|| json!({"space": spec.json(), "lattice": format!("{k}^{d} = {total} word tuples"), "bins_per_coordinate": b, "per_bin": want1}));
}

fn haar_cdf(theta: f64) -> f64 {
    (theta - theta.sin()) / PI
}

/// SO(3): K^4 tuples. `centre`/`radius` = cone (None = unbounded).
fn so3_check(bounds: Option<([f64; 4], f64)>, k: usize, tol: f64, rep: &mut Report) {
    let spec = Spec::So3 { bounds, frac: None };
    let sp = So3::build(&spec);
    let words = midpoints(k);
    let centre = bounds.map(|b| b.0).unwrap_or([0.0, 0.0, 0.0, 1.0]);
    let tmax = bounds.map(|b| b.1.min(PI)).unwrap_or(PI);
    // accepting tail: a point just inside the unit ball in the centre's direction, then a fixed
    // pseudo-random word list (any sampler with a positive acceptance probability terminates)
    let mut tail: Vec<u64> = centre.iter().map(|x| word_for_unit(((1.0 - 1e-8) * x + 1.0) / 2.0)).collect();
    tail.extend((0..512u64).map(crate::rngseam::mix));
    let total = k.pow(4);
    let edges: Vec<f64> = (1..16).map(|i| i as f64 * PI / 16.0).collect();
    // parallel over the first index
    let parts: Vec<(u64, u64, Vec<u64>, [u64; 8], u64)> = (0..k)
        .into_par_iter()
        .map(|i0| {
            let mut acc_ball = 0u64; // first attempt inside the unit ball
            let mut acc = 0u64; // first attempt accepted (ball and cone)
            let mut below = vec![0u64; edges.len()];
            let mut oct = [0u64; 8];
            let mut fail = 0u64;
            for i1 in 0..k {
                for i2 in 0..k {
                    for i3 in 0..k {
                        let mut script = vec![words[i0], words[i1], words[i2], words[i3]];
                        script.extend_from_slice(&tail);
                        let mut rng = WordRng::new(script);
                        rng.cap = 600;
                        let s = match guarded(|| sp.sample_uniform(&mut rng)) {
                            Ok(Ok(s)) => s,
                            _ => {
                                fail += 1;
                                continue;
                            }
                        };
                        // the lattice point itself
                        let u = |i: usize| ((i as f64 + 0.5) / k as f64) * 2.0 - 1.0;
                        let (x, y, z, w) = (u(i0), u(i1), u(i2), u(i3));
                        let n2 = x * x + y * y + z * z + w * w;
                        if n2 < 1.0 && n2 > 1e-9 {
                            acc_ball += 1;
                        }
                        if rng.drawn == 4 {
                            acc += 1;
                            let q = [s.x, s.y, s.z, s.w];
                            let th = so3_dist(&centre, &q);
                            for (e, c) in edges.iter().zip(below.iter_mut()) {
                                if th <= *e {
                                    *c += 1;
                                }
                            }
                            // axis octant (sign-normalised so that w >= 0)
                            let sg = if s.w < 0.0 { -1.0 } else { 1.0 };
                            let o = ((s.x * sg > 0.0) as usize) | (((s.y * sg > 0.0) as usize) << 1) | (((s.z * sg > 0.0) as usize) << 2);
                            oct[o] += 1;
                        }
                    }
                }
            }
            (acc_ball, acc, below, oct, fail)
        })
        .collect();
    let mut acc_ball = 0u64;
    let mut acc = 0u64;
    let mut below = vec![0u64; edges.len()];
    let mut oct = [0u64; 8];
    let mut fail = 0u64;
    for (a, b, c, o, f) in parts {
        acc_ball += a;
        acc += b;
        for (x, y) in below.iter_mut().zip(c) {
            *x += y;
        }
        for i in 0..8 {
            oct[i] += o[i];
        }
        fail += f;
    }
    rep.count("evaluations", total as u64);
    rep.count("so3_lattices", 1);
    rep.count("so3_first_attempt_accepted", acc);
    let det = |extra: Value| json!({"space": spec.json(), "K": k, "more": extra});
    if fail > 0 {
        viol(rep, "SO3|sampler-failed", format!("{fail} lattice tuples made sample_uniform fail or unwind"), det(json!({})));
        return;
    }
    // acceptance fraction: unit-ball volume / cube volume = pi^2 / 32, times the cone's Haar mass
    let frac_ball = acc_ball as f64 / total as f64;
    let want_ball = PI * PI / 32.0;
    let frac = acc as f64 / total as f64;
    let want = want_ball * haar_cdf(tmax);
    let tol_frac = 2.5 * tol * want_ball + 0.002;
    if (frac - want).abs() > tol_frac {
        viol(rep, "SO3|acceptance-fraction", format!("first-attempt acceptance {frac:.5}, the ball-rejection law gives {want:.5} (lattice ball fraction {frac_ball:.5})"), det(json!({"accepted": acc, "total": total})));
    }
    // conditional CDF of the rotation angle from the cone centre
    let norm = haar_cdf(tmax);
    let mut worst = 0.0f64;
    let mut worst_at = 0.0;
    for (e, c) in edges.iter().zip(&below) {
        if *e > tmax {
            continue;
        }
        let lat = *c as f64 / acc.max(1) as f64;
        let exact = haar_cdf(*e) / norm;
        if (lat - exact).abs() > worst {
            worst = (lat - exact).abs();
            worst_at = *e;
        }
    }
    rep.max("max_so3_cdf_deviation_x1e6", (worst * 1e6) as u64);
    if worst > tol {
        viol(rep, "SO3|rotation-angle-cdf", format!("lattice CDF of the rotation angle deviates from (theta - sin theta)/pi by {worst:.5} at theta = {worst_at:.4} (quadrature tolerance {tol})"), det(json!({"deviation": worst})));
    }
    // axis octants: exactly equal by the lattice's reflection symmetry (identity-centred cones only)
    if centre == [0.0, 0.0, 0.0, 1.0] {
        rep.count("octant_checks", 1);
        if oct.iter().any(|&c| c != oct[0]) {
            viol(rep, "SO3|axis-octants", format!("axis octant counts {oct:?} are not equal"), det(json!({})));
        }
    }
    rep.sample(|| json!({"space": spec.json(), "lattice": format!("{k}^4 = {total} word tuples"), "first_attempt_accepted": acc, "acceptance_fraction": frac, "expected": want, "max_cdf_deviation": worst, "tolerance": tol, "octants": oct}));
}

/// SE(3): product lattice K1^3 x K2^4; translation bins exact; (translation bin x rotation-angle
/// bin) counts factorise exactly (independence of the components on the lattice).
/// Stream audit (enumerated seeds, not the exhaustive lattice): a rejection sampler may change its
/// behaviour after a long run of rejections (a retry budget with a fallback), which no single-attempt
/// word tuple can show. For every seed of a lattice the real `StdRng` stream drives the real sampler;
/// the conditional rotation-angle CDF (theta - sin theta)/(a - sin a) is compared at 15 fixed edges
/// within 6 sigma, and no probability atom may sit on the cone boundary.
fn so3_stream_audit(bounds: ([f64; 4], f64), seeds: u64, per_seed: usize, rep: &mut Report) {
    so3_stream_audit_edited(bounds, None, seeds, per_seed, rep)
}

/// `edit`: the cone radius written into the public `bounds` field after construction (the region is what
/// the space says NOW; a radius of pi or more means the whole group).
fn so3_stream_audit_edited(bounds: ([f64; 4], f64), edit: Option<f64>, seeds: u64, per_seed: usize, rep: &mut Report) {
    use rand::SeedableRng;
    let spec = Spec::So3 { bounds: Some(bounds), frac: None };
    let (c, a) = bounds;
    let a = edit.map(|r| r.min(PI)).unwrap_or(a);
    let angles: Vec<Result<Vec<f64>, String>> = (0..seeds)
        .into_par_iter()
        .map(|seed| {
            let mut sp = So3::build(&spec);
            if let Some(r) = edit {
                sp.bounds.1 = r;
            }
            guarded(|| {
                let mut rng = rand::rngs::StdRng::seed_from_u64(seed);
                (0..per_seed).map(|_| sp.sample_uniform(&mut rng).map(|s| so3_dist(&c, &[s.x, s.y, s.z, s.w])).unwrap_or(f64::NAN)).collect::<Vec<f64>>()
            })
            .map_err(|_| format!("seed {seed}: sampler unwound"))
        })
        .collect();
    let mut th: Vec<f64> = Vec::new();
    for r in angles {
        match r {
            Ok(v) => th.extend(v),
            Err(e) => {
                viol(rep, "SO3|stream-audit|sampler-failed", e, json!({"space": spec.json()}));
                return;
            }
        }
    }
    let n = th.len() as f64;
    rep.count("so3_stream_audits", 1);
    rep.count("so3_stream_samples", th.len() as u64);
    rep.count("evaluations", th.len() as u64);
    let det = |extra: Value| json!({"space": spec.json(), "radius_written_into_the_public_field": edit, "seeds": seeds, "samples_per_seed": per_seed, "more": extra});
    if th.iter().any(|t| !t.is_finite() || *t > a + 2e-7) {
        viol(rep, "SO3|stream-audit|sample-outside-cone", "a streamed sample lies outside the cone or is not finite".into(), det(json!({})));
        return;
    }
    let norm = a - a.sin();
    let mut worst = 0.0f64;
    for e in 1..16 {
        let edge = a * e as f64 / 16.0;
        let f = (edge - edge.sin()) / norm;
        let emp = th.iter().filter(|t| **t <= edge).count() as f64 / n;
        let sigma = (f * (1.0 - f) / n).sqrt();
        let dev = (emp - f).abs();
        worst = worst.max(dev / sigma.max(1e-12));
        if dev > 6.0 * sigma + 1e-4 {
            viol(rep, "SO3|stream-audit|rotation-angle-cdf", format!("cone radius {a}: empirical CDF {emp:.5} at theta = {edge:.4}, exact {f:.5} (more than 6 sigma = {:.5} away)", 6.0 * sigma), det(json!({"edge": edge})));
            return;
        }
    }
    rep.max("max_so3_stream_deviation_in_sigma_x100", (worst * 100.0) as u64);
    // the exact law has mass O(1e-9) within a(1 - 1e-9) of the boundary
    let on_rim = th.iter().filter(|t| **t > a * (1.0 - 1e-9)).count();
    if on_rim > 3 {
        viol(rep, "SO3|stream-audit|boundary-atom", format!("{on_rim} of {} streamed samples sit on the cone boundary (radius {a}); the uniform law has no atom there", th.len()), det(json!({"on_boundary": on_rim})));
    }
}

/// Stream audit for R^n of higher dimension than the exhaustive lattice can enumerate (n = 10, 12):
/// real `StdRng` streams over a seed lattice; every marginal CDF at 9 edges within 6 sigma, and every
/// PAIR of coordinates uncorrelated within 6 / sqrt(N) (coordinates that share a variate - a block
/// buffer that is not refilled, a stride bug - have correlation 1).
fn rv_stream_audit(dim: usize, seeds: u64, per_seed: usize, rep: &mut Report) {
    use rand::SeedableRng;
    let bounds: Vec<(f64, f64)> = (0..dim).map(|i| (-(i as f64) - 1.0, 2.0 * i as f64 + 0.5)).collect();
    let spec = Spec::Rv { dim, bounds: Some(bounds.clone()), frac: None };
    let rows: Vec<Vec<Vec<f64>>> = (0..seeds)
        .into_par_iter()
        .map(|seed| {
            let sp = Rv::build(&spec);
            let mut rng = rand::rngs::StdRng::seed_from_u64(seed);
            (0..per_seed).filter_map(|_| sp.sample_uniform(&mut rng).ok()).map(|s| s.values.iter().zip(&bounds).map(|(x, (l, u))| (x - l) / (u - l)).collect::<Vec<f64>>()).collect()
        })
        .collect();
    let xs: Vec<Vec<f64>> = rows.into_iter().flatten().collect();
    let n = xs.len() as f64;
    rep.count("rv_stream_audits", 1);
    rep.count("evaluations", xs.len() as u64);
    let det = |extra: Value| json!({"space": spec.json(), "seeds": seeds, "samples_per_seed": per_seed, "more": extra});
    if xs.len() != (seeds as usize) * per_seed || xs.iter().any(|x| x.len() != dim || x.iter().any(|u| !(*u >= 0.0 && *u < 1.0))) {
        viol(rep, "RealVector|stream-audit|sample-outside-region", "a streamed sample is missing, of the wrong dimension or outside [lower, upper)".into(), det(json!({})));
        return;
    }
    for i in 0..dim {
        for e in 1..10 {
            let edge = e as f64 / 10.0;
            let emp = xs.iter().filter(|x| x[i] <= edge).count() as f64 / n;
            let sigma = (edge * (1.0 - edge) / n).sqrt();
            if (emp - edge).abs() > 6.0 * sigma {
                viol(rep, "RealVector|stream-audit|marginal-cdf", format!("R^{dim}: coordinate {i}: empirical CDF {emp:.5} at {edge}, more than 6 sigma from the uniform law"), det(json!({"coordinate": i})));
                return;
            }
        }
    }
    let mean: Vec<f64> = (0..dim).map(|i| xs.iter().map(|x| x[i]).sum::<f64>() / n).collect();
    let var: Vec<f64> = (0..dim).map(|i| xs.iter().map(|x| (x[i] - mean[i]).powi(2)).sum::<f64>() / n).collect();
    let mut worst = 0.0f64;
    for i in 0..dim {
        for j in (i + 1)..dim {
            let cov = xs.iter().map(|x| (x[i] - mean[i]) * (x[j] - mean[j])).sum::<f64>() / n;
            let corr = cov / (var[i] * var[j]).sqrt();
            worst = worst.max(corr.abs() * n.sqrt());
            rep.count("rv_stream_pairs_checked", 1);
            if corr.abs() > 6.0 / n.sqrt() {
                viol(rep, "RealVector|stream-audit|coordinates-not-independent", format!("R^{dim}: coordinates {i} and {j} have correlation {corr:.4} over {} samples (independent coordinates stay within {:.4})", xs.len(), 6.0 / n.sqrt()), det(json!({"coordinates": [i, j]})));
                return;
            }
        }
    }
    rep.max("max_rv_stream_correlation_in_sigma_x100", (worst * 100.0) as u64);
}

fn se3_check(k1: usize, k2: usize, rep: &mut Report) {
    let spec = Spec::Se3 { weight: 0.5, bounds: Some(vec![(0.0, 4.0), (-1.0, 1.0), (2.0, 3.0)]) };
    let sp = Se3::build(&spec);
    let w1 = midpoints(k1);
    let w2 = midpoints(k2);
    let tail: Vec<u64> = [0.0, 0.0, 0.0, 0.5f64].iter().map(|x| word_for_unit((x + 1.0) / 2.0)).collect();
    let b = 2usize;
    let nb = 4usize; // rotation-angle bins
    let mut joint = vec![0u64; b * b * b * nb];
    let mut rot = vec![0u64; nb];
    let mut tr = vec![0u64; b * b * b];
    let mut acc_total = 0u64;
    let id = [0.0, 0.0, 0.0, 1.0];
    for t in 0..k1.pow(3) {
        let (a0, a1, a2) = (t % k1, (t / k1) % k1, t / (k1 * k1));
        for r in 0..k2.pow(4) {
            let ri = [r % k2, (r / k2) % k2, (r / (k2 * k2)) % k2, r / (k2 * k2 * k2)];
            let mut script = vec![w1[a0], w1[a1], w1[a2], w2[ri[0]], w2[ri[1]], w2[ri[2]], w2[ri[3]]];
            script.extend_from_slice(&tail);
            let mut rng = WordRng::new(script);
            rng.cap = 64;
            let Ok(Ok(s)) = guarded(|| sp.sample_uniform(&mut rng)) else {
                viol(rep, "SE3|sampler-failed", "sample_uniform failed on a lattice tuple".into(), json!({}));
                return;
            };
            rep.count("evaluations", 1);
            if rng.drawn != 7 {
                continue; // rotation rejected on the first attempt
            }
            acc_total += 1;
            let V::Cmp(c) = Se3::to_v(&s) else { unreachable!() };
            let (V::Rv(x), V::So3(q)) = (&c[0], &c[1]) else { unreachable!() };
            let ux = [(x[0] - 0.0) / 4.0, (x[1] + 1.0) / 2.0, x[2] - 2.0];
            let tb = ux.iter().fold(0usize, |acc, u| acc * b + ((u * b as f64) as usize).min(b - 1));
            let th = so3_dist(&id, q);
            let rb = ((th / PI * nb as f64) as usize).min(nb - 1);
            joint[tb * nb + rb] += 1;
            rot[rb] += 1;
            tr[tb] += 1;
        }
    }
    rep.count("se3_lattices", 1);
    // translation marginal: exact equal counts; joint = product of marginals exactly
    let want_tr = acc_total / (b * b * b) as u64;
    if tr.iter().any(|&c| c != want_tr) {
        viol(rep, "SE3|marginal-bin-count", format!("translation octant counts {tr:?} are not all {want_tr}"), json!({}));
    }
    for tb in 0..b * b * b {
        for rb in 0..nb {
            if joint[tb * nb + rb] * acc_total != tr[tb] * rot[rb] {
                viol(rep, "SE3|components-not-independent", format!("joint count {} != {} * {} / {}", joint[tb * nb + rb], tr[tb], rot[rb], acc_total), json!({}));
                return;
            }
        }
    }
    rep.sample(|| json!({"space": spec.json(), "lattice": format!("{k1}^3 x {k2}^4"), "accepted": acc_total, "translation_octants": tr, "rotation_angle_bins": rot}));
}

pub fn run(tier: &'static str) -> i32 {
    let t0 = Instant::now();
    let thorough = tier != "quick";
    let mut rep = Report::new();
    // product laws
    let jobs: Vec<(Spec, usize, usize, usize)> = vec![
        (Spec::Rv { dim: 1, bounds: Some(vec![(-2.0, 3.0)]), frac: None }, 1, 4096, 64),
        (Spec::Rv { dim: 2, bounds: Some(vec![(0.0, 4.0), (-1.0, 1.0)]), frac: None }, 2, if thorough { 512 } else { 256 }, 16),
        (Spec::Rv { dim: 3, bounds: Some(vec![(0.0, 4.0), (-1.0, 1.0), (1e-3, 2e-3)]), frac: None }, 3, 64, 8),
        (Spec::Rv { dim: 2, bounds: Some(vec![(-1e300, 1e300), (-1e-300, 1e-300)]), frac: None }, 2, 64, 8),
        // finite bounds whose width overflows: refused today (documented error); if they are ever
        // sampled, the law is the uniform one like anywhere else
        (Spec::Rv { dim: 1, bounds: Some(vec![(-1.0e308, 1.7e308)]), frac: None }, 1, 4096, 64),
        (Spec::Rv { dim: 2, bounds: Some(vec![(0.0, 1.0), (-1.7e308, 0.5e308)]), frac: None }, 2, 64, 8),
        // boxes that are narrow relative to the magnitude of their bounds (a time window, a map tile far
        // from the origin, a sliver at the origin): every part of the interval is reachable
        (Spec::Rv { dim: 1, bounds: Some(vec![(1.7e9, 1.7e9 + 10.0)]), frac: None }, 1, 4096, 64),
        (Spec::Rv { dim: 2, bounds: Some(vec![(5.4e6, 5.4e6 + 0.05), (0.0, 1e-8)]), frac: None }, 2, 64, 8),
        (Spec::Rv { dim: 1, bounds: Some(vec![(-1e12 - 1.0, -1e12)]), frac: None }, 1, 4096, 64),
        (Spec::So2 { bounds: None, frac: None }, 1, 4096, 64),
        (Spec::So2 { bounds: Some((-1.0, 2.5)), frac: None }, 1, 4096, 64),
        (Spec::So2 { bounds: Some((0.5, PI)), frac: None }, 1, 4096, 64),
        // intervals requested beyond [-pi, pi] (stored clamped): the region is what is stored
        (Spec::So2 { bounds: Some((-4.0, 4.0)), frac: None }, 1, 4096, 64),
        (Spec::So2 { bounds: Some((-5.0, 1.0)), frac: None }, 1, 4096, 64),
        (Spec::Se2 { weight: 0.5, bounds: Some(vec![(0.0, 1.0), (0.0, 1.0), (-3.5, 3.5)]) }, 3, 64, 8),
        (Spec::Cmp { parts: vec![Spec::Rv { dim: 2, bounds: Some(vec![(0.0, 4.0), (0.0, 4.0)]), frac: None }, Spec::So2 { bounds: None, frac: None }], weights: vec![1.0, 0.5] }, 3, 64, 8),
        (Spec::Cmp { parts: vec![Spec::So2 { bounds: Some((-1.0, 1.0)), frac: None }, Spec::Rv { dim: 1, bounds: Some(vec![(0.0, 1.0)]), frac: None }, Spec::So2 { bounds: None, frac: None }], weights: vec![1.0, 2.0, 0.1] }, 3, 64, 8),
        (Spec::Se2 { weight: 0.5, bounds: Some(vec![(0.0, 4.0), (-2.0, 2.0), (-PI, PI)]) }, 3, 64, 8),
        (Spec::Se2 { weight: 0.5, bounds: Some(vec![(0.0, 1.0), (0.0, 1.0), (-1.0, 2.0)]) }, 3, 64, 8),
    ];
    let r = jobs
        .par_iter()
        .map(|(spec, d, k, b)| {
            let mut rep = Report::new();
            match spec {
                Spec::Rv { .. } => product_check::<Rv>(spec, *d, *k, *b, &mut rep),
                Spec::So2 { .. } => product_check::<So2>(spec, *d, *k, *b, &mut rep),
                Spec::Cmp { .. } => product_check::<Cmp>(spec, *d, *k, *b, &mut rep),
                Spec::Se2 { .. } => product_check::<Se2>(spec, *d, *k, *b, &mut rep),
                _ => unreachable!(),
            }
            rep
        })
        .reduce(Report::new, |mut a, b| {
            a.merge(b);
            a
        });
    rep.merge(r);
    // bounds edited after construction through the public `bounds` field (and a clone of such a
    // space): the region is what the space says NOW
    {
        use oxmpl::base::space::{RealVectorStateSpace, SO2StateSpace};
        let target = vec![(0.0, 4.0), (-3.0, 5.0)];
        let mut sp = RealVectorStateSpace::new(2, Some(vec![(0.0, 1.0), (-1.0, 1.0)])).expect("space");
        sp.bounds = target.clone();
        let spec = Spec::Rv { dim: 2, bounds: Some(target), frac: None };
        let mut r = Report::new();
        product_check_sp::<Rv>(&spec, sp.clone(), 2, 64, 8, &mut r);
        product_check_sp::<Rv>(&spec, sp, 2, 64, 8, &mut r);
        let mut s2 = SO2StateSpace::new(Some((-1.0, 1.0))).expect("space");
        s2.bounds = (-2.0, 2.5);
        product_check_sp::<So2>(&Spec::So2 { bounds: Some((-2.0, 2.5)), frac: None }, s2, 1, 4096, 64, &mut r);
        r.count("edited_bounds_lattices", 3);
        rep.merge(r);
    }
    // SO(3): K = 32 (tolerance 0.02) in quick, K = 64 (0.006) in thorough; cones conditioned on theta <= theta_max
    let (k, tol) = if thorough { (64, 0.006) } else { (32, 0.02) };
    let rx = crate::catalog::quat_axis_angle([1.0, 0.0, 0.0], 90.0);
    so3_check(None, k, tol, &mut rep);
    so3_check(Some(([0.0, 0.0, 0.0, 1.0], 2.0)), k, 1.5 * tol, &mut rep);
    so3_check(Some(([0.0, 0.0, 0.0, 1.0], 1.0)), k, 2.5 * tol, &mut rep);
    so3_check(Some((rx, 2.0)), k, 1.5 * tol, &mut rep);
    if thorough {
        so3_check(None, 48, 0.012, &mut rep);
    }
    let (k1, k2) = if thorough { (4, 16) } else { (2, 12) };
    se3_check(k1, k2, &mut rep);
    // stream audits: narrow cones (where a retry budget would bite) and a wide one
    let (seeds, per) = if thorough { (256, 4000) } else { (64, 1500) };
    for b in [([0.0, 0.0, 0.0, 1.0], 0.5), (rx, 0.4), ([0.0, 0.0, 0.0, 1.0], 1.0), (rx, 2.0)] {
        so3_stream_audit(b, seeds, per, &mut rep);
    }
    // a mid-width cone with a million draws: the Haar law and the "uniform rotation vector" law
    // (theta/a)^3 differ by only 0.0093 a^2 in CDF there
    so3_stream_audit(([0.0, 0.0, 0.0, 1.0], 0.95), if thorough { 1024 } else { 256 }, 4000, &mut rep);
    // a cone radius written into the public field after construction, beyond pi (the whole group) and below
    so3_stream_audit_edited(([0.0, 0.0, 0.0, 1.0], 1.0), Some(4.0), seeds, if thorough { 2000 } else { 600 }, &mut rep);
    so3_stream_audit_edited((rx, 2.0), Some(1.5 * PI), seeds, if thorough { 2000 } else { 600 }, &mut rep);
    so3_stream_audit_edited(([0.0, 0.0, 0.0, 1.0], 2.0), Some(0.8), seeds, if thorough { 2000 } else { 600 }, &mut rep);
    // narrow cones (a dedicated small-angle sampler would live here): few draws, each costs thousands of attempts
    so3_stream_audit(([0.0, 0.0, 0.0, 1.0], 0.24), seeds, if thorough { 600 } else { 150 }, &mut rep);
    so3_stream_audit((rx, 0.15), seeds, if thorough { 300 } else { 80 }, &mut rep);
    for dim in [10usize, 12] {
        rv_stream_audit(dim, seeds, if thorough { 2000 } else { 800 }, &mut rep);
    }
    // independence ACROSS the components of compound kinds whose components draw many words (a long
    // vector, a rotation found by rejection): real generator streams, marginals and cross-component
    // dependence (linear and quartile tables)
    {
        let r2 = Spec::Rv { dim: 2, bounds: Some(vec![(0.0, 4.0), (-1.0, 1.0)]), frac: None };
        let r6 = Spec::Rv { dim: 6, bounds: Some(vec![(0.0, 1.0), (-1.0, 1.0), (0.0, 4.0), (2.0, 3.0), (-5.0, 5.0), (0.0, 0.5)]), frac: None };
        let so2 = Spec::So2 { bounds: None, frac: None };
        let so2b = Spec::So2 { bounds: Some((-1.0, 2.0)), frac: None };
        let so3 = Spec::So3 { bounds: None, frac: None };
        let so3c = Spec::So3 { bounds: Some(([0.0, 0.0, 0.0, 1.0], 1.0)), frac: None };
        let layouts: Vec<Vec<Spec>> = vec![
            vec![r6.clone(), so2.clone()],
            vec![so3.clone(), r2.clone()],
            vec![r2.clone(), so3.clone(), so2b.clone()],
            vec![so3c.clone(), so2.clone(), r2.clone()],
            vec![so2b.clone(), r6.clone(), so3.clone()],
            vec![so3.clone(), so3c.clone()],
        ];
        let (sd, per) = if thorough { (192u64, 2000usize) } else { (48, 1000) };
        for parts in layouts {
            let weights = vec![1.0; parts.len()];
            let spec = Spec::Cmp { parts, weights };
            match generic_stream_audit_n::<Cmp>(&spec, sd, per) {
                Ok(n) => {
                    rep.count("evaluations", n);
                    rep.count("compound_stream_audits", 1);
                }
                Err(e) => viol(&mut rep, "Compound|stream-audit|law", format!("on real generator streams: {e}"), json!({"space": spec.json(), "seeds": sd, "per_seed": per})),
            }
        }
        let se3 = Spec::Se3 { weight: 0.5, bounds: Some(vec![(0.0, 4.0), (-1.0, 1.0), (2.0, 3.0)]) };
        match generic_stream_audit_n::<Se3>(&se3, sd, per) {
            Ok(n) => {
                rep.count("evaluations", n);
                rep.count("compound_stream_audits", 1);
            }
            Err(e) => viol(&mut rep, "SE3|stream-audit|law", format!("on real generator streams: {e}"), json!({"space": se3.json()})),
        }
    }
    let meta = CheckMeta {
        prop: "C14",
        tier,
        level: "exploration",
        rule: "every tuple of the mid-point word lattice {(k+1/2)/K}^d is fed to the real sampler through a scripted RngCore (no seeds, no statistics): product laws need exactly K^d/B outputs per 1-D bin and K^d/B^2 per 2-D cell; SO(3) is judged by the deviation of the lattice CDF of the rotation angle from (theta - sin theta)/pi at 15 fixed edges (quadrature tolerance), the first-attempt acceptance fraction against pi^2/32 x Haar mass of the cone, and exactly equal axis-octant counts; SE(3) by exact translation counts and exact factorisation of joint (translation, rotation-angle) counts; distinct_nontrivial = distinct sampled states recorded (1 in 4099)",
        exhaustive: true,
        bounds: json!({"so3_K": k, "so3_tolerance": tol, "se3_lattice": [k1, k2]}),
        assumptions: vec![
            "StdRng's words are uniform (trusted); what is decided is that the sampler pushes uniform words forward to the uniform law".into(),
            "rand 0.9 maps a word w to the unit value (w >> 12) * 2^-52 (the exact-count results confirm it)".into(),
            "SO(3) quadrature tolerances calibrated at design time: correct sampler 0.0086 (K=32), 0.0016 (K=64); cube-normalisation without ball rejection 0.077".into(),
        ],
        must_be_positive: vec!["product_lattices", "marginal_bins_checked", "pair_bins_checked", "so3_lattices", "so3_first_attempt_accepted", "octant_checks", "se3_lattices", "edited_bounds_lattices", "so3_stream_audits", "rv_stream_audits", "rv_stream_pairs_checked", "compound_stream_audits"],
    };
    finish(&meta, rep, t0)
}

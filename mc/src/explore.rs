//! Exhaustive enumeration of sample sequences against the real planners, sharded over threads.

use crate::drv::{Pk, Snap};
use crate::kit::{Cmp, Kit, Rv, Se2, Se3, So2, So3};
use crate::report::{h128, Report};
use crate::scen::{Rig, Scenario};
use oxmpl::base::error::PlanningError;
use rayon::prelude::*;
use std::any::Any;
use std::cell::RefCell;
use std::panic::{catch_unwind, AssertUnwindSafe};
use std::time::Duration;

thread_local! {
    pub static LAST_PANIC: RefCell<Option<String>> = const { RefCell::new(None) };
    static IN_GUARD: std::cell::Cell<u32> = const { std::cell::Cell::new(0) };
}

pub fn install_panic_hook() {
    std::panic::set_hook(Box::new(|info| {
        let loc = info.location().map(|l| format!("{}:{}", l.file(), l.line())).unwrap_or_default();
        let msg = if let Some(s) = info.payload().downcast_ref::<&str>() {
            s.to_string()
        } else if let Some(s) = info.payload().downcast_ref::<String>() {
            s.clone()
        } else if info.payload().is::<crate::seams::WorkCapHit>() {
            "<harness: validity-query work cap hit>".to_string()
        } else if info.payload().is::<crate::seams::ScriptExhausted>() {
            "<harness: sample script exhausted>".to_string()
        } else {
            "<non-string panic payload>".to_string()
        };
        if IN_GUARD.with(|g| g.get()) == 0 {
            eprintln!("ENGINE-ERROR: harness panic outside a guarded region: {msg} @ {loc}");
        }
        LAST_PANIC.with(|p| *p.borrow_mut() = Some(format!("{msg} @ {loc}")));
    }));
}

#[derive(Debug)]
pub enum Caught {
    /// panic raised by harness code (engine error)
    Harness(String),
    WorkCap(u64),
    ScriptExhausted,
    Panic(String),
}

// ---- hang watchdog: every guarded region is timed; a region that does not return is reported
pub struct Slot {
    pub start_ms: std::sync::atomic::AtomicU64,
    pub desc: std::sync::Mutex<String>,
}
pub static SLOTS: std::sync::OnceLock<Vec<Slot>> = std::sync::OnceLock::new();
static NEXT_SLOT: std::sync::atomic::AtomicUsize = std::sync::atomic::AtomicUsize::new(0);
static EPOCH: std::sync::OnceLock<std::time::Instant> = std::sync::OnceLock::new();
thread_local! {
    static MY_SLOT: usize = NEXT_SLOT.fetch_add(1, std::sync::atomic::Ordering::Relaxed) % 1024;
}
pub fn slots() -> &'static Vec<Slot> {
    SLOTS.get_or_init(|| (0..1024).map(|_| Slot { start_ms: std::sync::atomic::AtomicU64::new(0), desc: std::sync::Mutex::new(String::new()) }).collect())
}
pub fn now_ms() -> u64 {
    EPOCH.get_or_init(std::time::Instant::now).elapsed().as_millis() as u64 + 1
}
/// Describe what the calling thread is about to run (shown if it hangs).
pub fn watch_desc(d: impl FnOnce() -> String) {
    let i = MY_SLOT.with(|s| *s);
    if let Ok(mut g) = slots()[i].desc.lock() {
        *g = d();
    }
}
fn rss_kb() -> u64 {
    std::fs::read_to_string("/proc/self/statm").ok().and_then(|s| s.split_whitespace().nth(1).and_then(|p| p.parse::<u64>().ok())).map(|pages| pages * 4).unwrap_or(0)
}

/// Starts the watchdog thread. A guarded region (one planner call, or one short history) that runs
/// longer than `limit_s`, or a process whose resident memory passes the limit (a loop that allocates
/// without end, e.g. path extraction over a parent cycle), ends the run: for the properties that
/// promise termination (C06 "never blocks", C08 "each call returns", C15 "extracting a path
/// terminates") the non-returning call is the violation, with the scenario it was executing as
/// replay; for the others the findings of the completed explorations are reported if there are any,
/// else it is an engine error.
pub fn start_watchdog(limit_s: u64, prop: String, tier: String) {
    let _ = slots();
    let _ = now_ms();
    let rss_limit_kb: u64 = std::env::var("MC_RSS_LIMIT_GB").ok().and_then(|s| s.parse::<u64>().ok()).unwrap_or(20) * 1024 * 1024;
    let t_start = now_ms();
    // the whole run: a quick tier takes a minute, a thorough tier an hour or two; under a change that makes
    // single executions pathologically slow (every motion check a few million queries up to the callback cap)
    // the exploration would otherwise grind on for hours
    let total_limit_s: u64 = std::env::var("MC_TOTAL_SECS").ok().and_then(|s| s.parse().ok()).unwrap_or(if tier == "quick" { 2400 } else { 6 * 3600 });
    std::thread::spawn(move || loop {
        std::thread::sleep(std::time::Duration::from_millis(250));
        let now = now_ms();
        let caps = WORK_CAP_HITS.load(std::sync::atomic::Ordering::Relaxed);
        if now > t_start + total_limit_s * 1000 || caps > 3_000 {
            let reason = if caps > 3_000 {
                format!("{caps} executions ran into the per-rig callback cap : individual planner calls do an absurd amount of work on this tree; the exploration was stopped")
            } else {
                format!("the exploration did not finish within {total_limit_s} s of wall time ({caps} executions ran into the callback cap)")
            };
            crate::report::emergency_finish(&prop, &tier, &reason, None);
        }
        let ballooned = rss_kb() > rss_limit_kb;
        // the longest-running guarded region
        let mut worst: Option<(u64, String)> = None;
        for s in slots().iter() {
            let st = s.start_ms.load(std::sync::atomic::Ordering::Relaxed);
            if st != 0 && worst.as_ref().map(|w| st < w.0).unwrap_or(true) {
                worst = Some((st, s.desc.lock().map(|g| g.clone()).unwrap_or_default()));
            }
        }
        let Some((st, desc)) = worst else { continue };
        let overdue = now > st + limit_s * 1000;
        // a ballooning process is attributed to the region that has been running longest, provided it
        // has been running for a while (normal regions take milliseconds)
        if !(overdue || (ballooned && now > st + 3000)) {
            continue;
        }
        let how = if overdue { format!("did not return within {limit_s} s of wall time under the logical clock") } else { format!("kept allocating (resident memory above {} GB) without returning", rss_limit_kb / 1024 / 1024) };
        let reason = format!("a planner call {how}: {}", if desc.is_empty() { "(no descriptor)" } else { &desc });
        let replay: serde_json::Value = serde_json::from_str(&desc).unwrap_or(serde_json::Value::String(desc.clone()));
        let hang = if matches!(prop.as_str(), "C06" | "C08" | "C15") && !desc.is_empty() {
            Some((format!("{prop}|planner-call-did-not-return"), format!("a planner call {how} (it spins without calling back, or extracts a path over a parent cycle)"), replay))
        } else {
            None
        };
        crate::report::emergency_finish(&prop, &tier, &reason, hang);
    });
}

/// Runs `f`, converting unwinding into a value.
pub fn guarded<T>(f: impl FnOnce() -> T) -> Result<T, Caught> {
    LAST_PANIC.with(|p| *p.borrow_mut() = None);
    IN_GUARD.with(|g| g.set(g.get() + 1));
    let slot = MY_SLOT.with(|s| *s);
    let outer = IN_GUARD.with(|g| g.get()) == 1;
    if outer {
        slots()[slot].start_ms.store(now_ms(), std::sync::atomic::Ordering::Relaxed);
    }
    let r = catch_unwind(AssertUnwindSafe(f));
    if outer {
        slots()[slot].start_ms.store(0, std::sync::atomic::Ordering::Relaxed);
    }
    IN_GUARD.with(|g| g.set(g.get() - 1));
    match r {
        Ok(v) => Ok(v),
        Err(payload) => Err(classify(payload)),
    }
}
pub static WORK_CAP_HITS: std::sync::atomic::AtomicU64 = std::sync::atomic::AtomicU64::new(0);
fn classify(payload: Box<dyn Any + Send>) -> Caught {
    if let Some(w) = payload.downcast_ref::<crate::seams::WorkCapHit>() {
        WORK_CAP_HITS.fetch_add(1, std::sync::atomic::Ordering::Relaxed);
        Caught::WorkCap(w.0)
    } else if payload.is::<crate::seams::ScriptExhausted>() {
        Caught::ScriptExhausted
    } else {
        let msg = LAST_PANIC.with(|p| p.borrow().clone()).unwrap_or_else(|| "<unknown panic>".into());
        // a panic raised by the harness's own source is an engine error, never a verdict
        let loc = msg.rsplit(" @ ").next().unwrap_or("");
        if loc.starts_with("src/") {
            Caught::Harness(msg)
        } else {
            Caught::Panic(msg)
        }
    }
}

/// Dispatch a generic function over the kit named by a scenario.
#[macro_export]
macro_rules! with_kit {
    ($kit:expr, $f:ident ( $($a:expr),* )) => {
        match $kit {
            "RealVector" => $f::<$crate::kit::Rv>($($a),*),
            "SO2" => $f::<$crate::kit::So2>($($a),*),
            "SO3" => $f::<$crate::kit::So3>($($a),*),
            "Compound" => $f::<$crate::kit::Cmp>($($a),*),
            "SE2" => $f::<$crate::kit::Se2>($($a),*),
            "SE3" => $f::<$crate::kit::Se3>($($a),*),
            k => panic!("unknown kit {k}"),
        }
    };
}
#[allow(dead_code)]
fn _kits_used(_: (Rv, So2, So3, Cmp, Se2, Se3)) {}

/// One unit of parallel work: a scenario plus a fixed prefix of the sample sequence.
#[derive(Clone)]
pub struct Shard {
    pub sc: Scenario,
    pub letters: Vec<u8>,
    pub depth: usize,
    pub prefix: Vec<u8>,
}

pub fn shards(scs: &[Scenario], letters: &[u8], depth: usize) -> Vec<Shard> {
    let mut v = Vec::new();
    for sc in scs {
        if depth >= 2 {
            for &l in letters {
                v.push(Shard { sc: sc.clone(), letters: letters.to_vec(), depth, prefix: vec![l] });
            }
        } else {
            v.push(Shard { sc: sc.clone(), letters: letters.to_vec(), depth, prefix: vec![] });
        }
    }
    v
}

/// Calls `f(seq)` for every sequence in letters^depth that starts with `prefix`.
pub fn for_each_seq(letters: &[u8], depth: usize, prefix: &[u8], mut f: impl FnMut(&[u8])) {
    let free = depth - prefix.len();
    let n = letters.len();
    let mut idx = vec![0usize; free];
    let mut seq: Vec<u8> = prefix.to_vec();
    seq.extend(std::iter::repeat(letters[0]).take(free));
    loop {
        for i in 0..free {
            seq[prefix.len() + i] = letters[idx[i]];
        }
        f(&seq);
        // increment (last position fastest)
        let mut i = free;
        loop {
            if i == 0 {
                return;
            }
            i -= 1;
            idx[i] += 1;
            if idx[i] < n {
                break;
            }
            idx[i] = 0;
        }
    }
}

/// What one history produced.
pub struct Exec<K: Kit> {
    pub calls: Vec<(Result<Vec<K::S>, PlanningError>, usize)>,
    pub construct: Option<Result<(), PlanningError>>,
    /// calls from this index on answer a REPLACED problem (PRM set_problem_definition): its start and goal
    pub alt: Option<(usize, K::S, std::sync::Arc<crate::seams::HGoal<K>>)>,
}

pub const LONG: Duration = Duration::from_secs(3600);

thread_local! {
    /// Call boundary of the history being executed / judged (0 = none): samples[..k] go into one
    /// `solve` call, the rest into the following call(s). Read by the replay writers.
    pub static SPLIT: std::cell::Cell<usize> = const { std::cell::Cell::new(0) };
}

/// Runs one history on a fresh rig: tree planners feed all samples through `solve`; PRM builds
/// the roadmap from the samples and then queries once.
pub fn run_history<K: Kit>(sc: &Scenario, seq: &[u8], logging: bool) -> Result<(Rig<K>, Exec<K>), Caught> {
    run_history_split::<K>(sc, seq, logging, 0)
}

/// As `run_history`, with a call boundary after the first `split` samples (tree planners: the
/// first call gets exactly those samples as its budget and normally ends in Timeout; PRM: a second
/// `construct_roadmap` call and a second query follow the first).
/// `split` values that select the prior-life variants (see `prior_life`): A = another space object
/// (coarser, wider, sampled by its own real sampler) with the SAME validity checker; B = the SAME space
/// object with another validity checker (the obstacle-free world).
pub const PRIOR_LIFE: usize = usize::MAX;
pub const PRIOR_LIFE_B: usize = usize::MAX - 1;

/// The coarsest / widest sibling of a space spec: resolution fraction 1 (where the space has a
/// setter) and boxes twice as wide — what a planner object may have been used with before.
fn prior_spec(spec: &crate::kit::Spec) -> crate::kit::Spec {
    use crate::kit::Spec;
    let mut s = spec.clone();
    match &mut s {
        Spec::Rv { bounds, frac, .. } => {
            *frac = Some(1.0);
            if let Some(b) = bounds {
                for (l, u) in b.iter_mut() {
                    if l.is_finite() && u.is_finite() {
                        let w = *u - *l;
                        *l -= 0.5 * w;
                        *u += 0.5 * w;
                    }
                }
            }
        }
        Spec::So2 { frac, bounds } => {
            *frac = Some(1.0);
            *bounds = None;
        }
        Spec::So3 { frac, bounds } => {
            *frac = Some(1.0);
            *bounds = None;
        }
        Spec::Cmp { parts, weights } => {
            for p in parts.iter_mut() {
                *p = prior_spec(p);
            }
            // ... and a metric that weighs every component but the first 20 times lighter
            for w in weights.iter_mut().skip(1) {
                *w *= 0.05;
            }
        }
        Spec::Se2 { weight, .. } | Spec::Se3 { weight, .. } => *weight *= 0.05,
    }
    s
}

/// A previous life of the same planner object: set up with ANOTHER problem (another space object —
/// coarser resolution, wider / no bounds — the obstacle-free world, start and goal exchanged) and
/// driven with the given samples; afterwards the caller sets it up with the scenario's real problem.
/// Anything a planner caches across `setup` (resolution, roadmap, checker, links, generator) shows in
/// the second life, which the ordinary oracles judge.
fn prior_life<K: Kit>(rig: &mut Rig<K>, sc: &Scenario, seq: &[u8], same_space: bool) {
    use crate::seams::{HGoal, SampleMode, Scripted};
    let pspec = if same_space { sc.spec.clone() } else { prior_spec(&sc.spec) };
    let space = if same_space { rig.space.clone() } else { std::sync::Arc::new(Scripted::<K>::new(K::build(&pspec), rig.alphabet.clone())) };
    let dist = crate::scen::dist_fn::<K>(&pspec);
    // start and goal exchanged - or, for every other sample sequence of the other-space life, the SAME start
    // and goal (a planner that recognises "the same query" by its start and its checker must still notice
    // that the space is another one)
    // (which sequences: a bit of the sequence hash that is independent of the two bits choosing the variant)
    let fold = seq.iter().fold(0usize, |a, l| a.wrapping_mul(31).wrapping_add(*l as usize + 1));
    let same_query = !same_space && (fold / 4) % 2 == 0;
    let (p_start, goal) = if same_query {
        (rig.start.clone(), std::sync::Arc::new(HGoal::<K>::new(sc.goal_balls.iter().map(|(c, r)| (K::from_v(c), *r)).collect(), rig.goal.samples.clone(), dist)))
    } else {
        (rig.goal.samples[0].clone(), std::sync::Arc::new(HGoal::<K>::new(vec![(rig.start.clone(), sc.goal_balls[0].1)], vec![rig.start.clone()], dist)))
    };
    // (other-checker life, every other sequence: the very same problem-definition Arc - a planner that
    // recognises "the same problem" must still notice that the checker is another one)
    let same_pd = same_space && (fold / 4) % 2 == 0;
    let pd = if same_pd { rig.pd.clone() } else { std::sync::Arc::new(crate::drv::Pd::<K> { space: space.clone(), start_states: vec![p_start], goal }) };
    let n = seq.len().max(1);
    if same_space {
        let free = std::sync::Arc::new(crate::scen::build_world::<K>(&pspec, &crate::scen::WorldSpec { name: "free".into(), obst: vec![] }));
        rig.drv.setup(pd, free);
        space.push_script(seq);
        space.expire_when_exhausted.set(true);
    } else {
        // the other space is sampled by its own real sampler (its states may lie outside the real bounds)
        rig.drv.setup(pd, rig.world.clone());
        space.mode.set(SampleMode::PassThrough);
    }
    oxmpl::verif::clock_reset(1_000_000);
    if rig.is_prm() {
        rig.drv.set_prm_timeout(crate::drv::iters_secs(if same_space { n } else { 3 * n }));
        let _ = rig.drv.construct_roadmap();
        let _ = rig.drv.solve(LONG);
    } else {
        let _ = rig.drv.solve(crate::drv::iters(if same_space { n } else { 3 * n }));
    }
    if same_space {
        // leave the shared sampler seam as a fresh rig has it
        space.script.borrow_mut().clear();
        space.pos.set(0);
        space.calls.set(0);
        space.overdrawn.set(0);
        space.expire_when_exhausted.set(sc.params.bias >= 1.0 || sc.goal_fail_at.is_some() || sc.goal_fail_from.is_some());
        space.log.borrow_mut().clear();
        space.call_seqs.borrow_mut().clear();
    }
    // the second life starts with fresh harness-side counters and logs
    crate::seams::seam_reset();
    oxmpl::verif::clock_reset(1_000_000);
}

pub fn run_history_split<K: Kit>(sc: &Scenario, seq: &[u8], logging: bool, split: usize) -> Result<(Rig<K>, Exec<K>), Caught> {
    if split == PRIOR_LIFE || split == PRIOR_LIFE_B {
        SPLIT.with(|s| s.set(split));
        watch_desc(|| format!("{{\"scenario\": {:?}, \"samples\": {:?}, \"prior_life\": {:?}}}", sc.tag, seq, if split == PRIOR_LIFE { "other-space" } else { "other-checker" }));
        let mut rig = guarded(|| {
            let mut rig = Rig::<K>::new(sc, false);
            prior_life::<K>(&mut rig, sc, seq, split == PRIOR_LIFE_B);
            let (pd, w) = (rig.pd.clone(), rig.world.clone());
            rig.drv.setup(pd, w);
            rig
        })?;
        rig.logging(logging);
        let exec = guarded(|| {
            if rig.is_prm() {
                let c = rig.construct(seq);
                let r = rig.drv.solve(LONG);
                let mut calls = vec![(r, 0)];
                // a milestone that survived from the previous life and lies outside the bounds of the
                // present space can end a returned path: ask for it
                let mut alt = None;
                if let Snap::Roadmap(g) = rig.snapshot() {
                    if let Some((m, _)) = g.iter().find(|(m, _)| !crate::oracles::in_bounds_ref(&rig, m)) {
                        let dist = crate::scen::dist_fn::<K>(&sc.spec);
                        let goal = std::sync::Arc::new(crate::seams::HGoal::<K>::new(vec![(m.clone(), 1e-9)], vec![rig.start.clone()], dist));
                        let pd = std::sync::Arc::new(crate::drv::Pd::<K> { space: rig.space.clone(), start_states: vec![rig.start.clone()], goal: goal.clone() });
                        rig.drv.set_problem_definition(pd);
                        alt = Some((calls.len(), rig.start.clone(), goal));
                        calls.push((rig.drv.solve(LONG), 0));
                    }
                }
                Exec { calls, construct: Some(c), alt }
            } else {
                Exec { calls: rig.feed(seq), construct: None, alt: None }
            }
        })?;
        return Ok((rig, exec));
    }
    SPLIT.with(|s| s.set(split));
    watch_desc(|| format!("{{\"scenario\": {:?}, \"samples\": {:?}, \"call_boundary\": {split}}}", sc.tag, seq));
    let mut rig = guarded(|| Rig::<K>::new(sc, true))?;
    rig.logging(logging);
    let exec = guarded(|| {
        if rig.is_prm() {
            let c = rig.construct(seq);
            let r = rig.drv.solve(LONG);
            let mut calls = vec![(r, 0)];
            if split > 0 {
                // repeated construction must change nothing; the second query answers like the first
                if rig.snapshot().node_count() > 0 {
                    let _ = rig.drv.construct_roadmap();
                }
                calls.push((rig.drv.solve(LONG), 0));
                // ... and the roadmap is reused for a replaced problem (reverse direction: start at
                // the goal sample, goal around the old start): the new start connection is a fresh edge
                let p2_start = rig.goal.samples[0].clone();
                let dist = crate::scen::dist_fn::<K>(&sc.spec);
                let p2_goal = std::sync::Arc::new(crate::seams::HGoal::<K>::new(vec![(rig.start.clone(), sc.goal_balls[0].1)], vec![rig.start.clone()], dist));
                let pd2 = std::sync::Arc::new(crate::drv::Pd::<K> { space: rig.space.clone(), start_states: vec![p2_start.clone()], goal: p2_goal.clone() });
                rig.drv.set_problem_definition(pd2);
                let at = calls.len();
                calls.push((rig.drv.solve(LONG), 0));
                return Exec { calls, construct: Some(c), alt: Some((at, p2_start, p2_goal)) };
            }
            Exec { calls, construct: Some(c), alt: None }
        } else if split == 0 || split >= seq.len() {
            Exec { calls: rig.feed(seq), construct: None, alt: None }
        } else {
            let mut calls = rig.feed(&seq[..split]);
            // only a history whose first part was consumed entirely has its boundary at `split`
            calls.extend(rig.feed(&seq[split..]));
            Exec { calls, construct: None, alt: None }
        }
    })?;
    Ok((rig, exec))
}

/// Runs `per_history` on every history of every shard in parallel and merges the reports.
pub fn par_explore<K: Kit>(
    shards: &[Shard],
    logging: bool,
    splits: bool,
    all_splits: bool,
    split_all_roots: bool,
    per_history: &(dyn Fn(&Scenario, &[u8], Result<(Rig<K>, Exec<K>), Caught>, &mut Report) + Sync),
) -> Report {
    shards
        .par_iter()
        .map(|sh| {
            let mut rep = Report::new();
            let sc_h = h128(&sh.sc.tag.bytes().map(|b| b as u64).collect::<Vec<_>>()) as u64;
            for_each_seq(&sh.letters, sh.depth, &sh.prefix, |seq| {
                let r = run_history::<K>(&sh.sc, seq, logging);
                rep.count("evaluations", 1);
                rep.count("transitions", seq.len() as u64);
                if let Ok((rig, _)) = &r {
                    let snap: Snap<K> = rig.snapshot();
                    let mut key = snap.key();
                    key.push(sc_h);
                    rep.distinct.insert(h128(&key));
                }
                per_history(&sh.sc, seq, r, &mut rep);
                // call boundaries and prior lives for every scenario root of C02 / C04 and for a quarter of
                // the roots of the others (chosen by tag hash: deterministic, spread over planners, spaces
                // and worlds); the thorough tier puts the boundary at every position instead of two
                if splits && (split_all_roots || sc_h % 4 == 0) {
                    // the same samples with one call boundary at every position
                    // quick tier: boundaries after the first and before the last sample; thorough: all
                    let ks: Vec<usize> = if sh.sc.params.pk == Pk::Prm {
                        vec![1]
                    } else if all_splits {
                        (1..seq.len()).collect()
                    } else {
                        let mut v = vec![1, seq.len() - 1];
                        v.dedup();
                        v.retain(|k| *k >= 1 && *k < seq.len());
                        v
                    };
                    let mut ks = ks;
                    ks.push(PRIOR_LIFE);
                    ks.push(PRIOR_LIFE_B);
                    // quick tier: every sequence gets ONE of the variants, rotating with the sequence, so
                    // that every variant meets every scenario root on a quarter of its sequences
                    if !all_splits && ks.len() > 1 {
                        let r = seq.iter().fold(0usize, |a, l| a.wrapping_mul(31).wrapping_add(*l as usize + 1));
                        let n = ks.len();
                        ks = vec![ks[r % n]];
                    }
                    for k in ks {
                        let r = run_history_split::<K>(&sh.sc, seq, logging, k);
                        if k == PRIOR_LIFE || k == PRIOR_LIFE_B {
                            rep.count("prior_life_histories", 1);
                        }
                        rep.count("evaluations", 1);
                        rep.count("split_histories", 1);
                        rep.count("transitions", seq.len() as u64);
                        per_history(&sh.sc, seq, r, &mut rep);
                    }
                    SPLIT.with(|s| s.set(0));
                }
            });
            rep
        })
        .reduce(Report::new, |mut a, b| {
            a.merge(b);
            a
        })
}

pub fn pk_all() -> Vec<Pk> {
    Pk::ALL.to_vec()
}

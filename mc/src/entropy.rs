//! OS-entropy seam: the harness binary exports its own `getrandom` symbol (see build.rs), which
//! getrandom 0.3 resolves with dlsym(RTLD_DEFAULT, "getrandom") and std's RandomState reaches
//! through libc. Inside the harness every entropy request is answered from a per-thread key
//! (key 0 = pass through to the kernel) and counted.

use std::cell::Cell;

thread_local! {
    static KEY: Cell<u64> = const { Cell::new(0) };
    static CALLS: Cell<u64> = const { Cell::new(0) };
    static BYTES: Cell<u64> = const { Cell::new(0) };
}
static TOTAL_CALLS: std::sync::atomic::AtomicU64 = std::sync::atomic::AtomicU64::new(0);

pub fn set_key(k: u64) {
    KEY.with(|c| c.set(k));
    CALLS.with(|c| c.set(0));
    BYTES.with(|c| c.set(0));
}
pub fn calls() -> u64 {
    CALLS.with(|c| c.get())
}
pub fn total_calls() -> u64 {
    TOTAL_CALLS.load(std::sync::atomic::Ordering::Relaxed)
}

/// # Safety
/// libc-compatible getrandom(2): `buf` must be valid for `len` bytes.
#[no_mangle]
pub unsafe extern "C" fn getrandom(buf: *mut libc::c_void, len: usize, flags: libc::c_uint) -> isize {
    TOTAL_CALLS.fetch_add(1, std::sync::atomic::Ordering::Relaxed);
    // thread-locals may be gone during thread teardown: fall back to the kernel then
    let key = KEY.try_with(|c| c.get()).unwrap_or(0);
    if key == 0 {
        return libc::syscall(libc::SYS_getrandom, buf, len, flags) as isize;
    }
    let n = CALLS.with(|c| {
        let v = c.get();
        c.set(v + 1);
        v
    });
    BYTES.with(|c| c.set(c.get() + len as u64));
    let out = std::slice::from_raw_parts_mut(buf as *mut u8, len);
    let mut ctr = 0u64;
    for chunk in out.chunks_mut(8) {
        let w = crate::rngseam::mix(key.wrapping_mul(0x9e3779b97f4a7c15) ^ (n << 32) ^ ctr).to_le_bytes();
        chunk.copy_from_slice(&w[..chunk.len()]);
        ctr += 1;
    }
    len as isize
}

/// Runs `f` on a fresh thread (fresh ThreadRng / RandomState lazies) under entropy key `key`.
pub fn with_entropy<T: Send>(key: u64, f: impl FnOnce() -> T + Send) -> (T, u64) {
    std::thread::scope(|s| {
        std::thread::Builder::new()
            .stack_size(32 << 20)
            .spawn_scoped(s, move || {
                set_key(key);
                let r = f();
                let c = calls();
                set_key(0);
                (r, c)
            })
            .expect("spawn")
            .join()
            .expect("entropy thread panicked")
    })
}

/// Canary: does interposition engage? `StdRng::from_os_rng()` under two keys must differ, and
/// under the same key must agree.
pub fn canary() -> bool {
    use rand::{rngs::StdRng, RngCore, SeedableRng};
    let draw = |k: u64| with_entropy(k, || (StdRng::from_os_rng().next_u64(), rand::rng().next_u64()));
    // the getrandom crate probes the symbol once per process; keep that out of the comparison
    let _ = draw(10);
    let (a1, c1) = draw(11);
    let (a2, _) = draw(11);
    let (b, _) = draw(12);
    a1 == a2 && a1 != b && c1 >= 2
}

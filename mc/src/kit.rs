//! Kits: one per state space of oxmpl. A kit ties the concrete state / space types to a uniform
//! value representation `V` (used by reference models, replay files and evidence samples).

use oxmpl::base::space::{
    AnyStateSpace, CompoundStateSpace, RealVectorStateSpace, SE2StateSpace, SE3StateSpace,
    SO2StateSpace, SO3StateSpace, StateSpace,
};
use oxmpl::base::state::{
    CompoundState, RealVectorState, SE2State, SE3State, SO2State, SO3State, State,
};
use serde_json::{json, Value};
use std::any::Any;

/// Uniform value representation of a state.
#[derive(Clone, Debug, PartialEq)]
pub enum V {
    Rv(Vec<f64>),
    So2(f64),
    So3([f64; 4]), // x, y, z, w
    Cmp(Vec<V>),
}

impl V {
    pub fn enc(&self, out: &mut Vec<u64>) {
        match self {
            V::Rv(v) => {
                out.push(0x1000 + v.len() as u64);
                out.extend(v.iter().map(|x| x.to_bits()));
            }
            V::So2(a) => {
                out.push(0x2000);
                out.push(a.to_bits());
            }
            V::So3(q) => {
                out.push(0x3000);
                out.extend(q.iter().map(|x| x.to_bits()));
            }
            V::Cmp(c) => {
                out.push(0x4000 + c.len() as u64);
                for x in c {
                    x.enc(out);
                }
            }
        }
    }
    pub fn bits(&self) -> Vec<u64> {
        let mut o = Vec::new();
        self.enc(&mut o);
        o
    }
    pub fn json(&self) -> Value {
        fn f(x: f64) -> Value {
            if x.is_finite() {
                json!(x)
            } else {
                json!(format!("{x}"))
            }
        }
        match self {
            V::Rv(v) => json!({"rv": v.iter().map(|x| f(*x)).collect::<Vec<_>>()}),
            V::So2(a) => json!({"so2": f(*a)}),
            V::So3(q) => json!({"so3_xyzw": q.iter().map(|x| f(*x)).collect::<Vec<_>>()}),
            V::Cmp(c) => json!({"cmp": c.iter().map(|x| x.json()).collect::<Vec<_>>()}),
        }
    }
    pub fn all_finite(&self) -> bool {
        match self {
            V::Rv(v) => v.iter().all(|x| x.is_finite()),
            V::So2(a) => a.is_finite(),
            V::So3(q) => q.iter().all(|x| x.is_finite()),
            V::Cmp(c) => c.iter().all(|x| x.all_finite()),
        }
    }
}

/// Constructor arguments of a space (uniform, printable, rebuildable).
#[derive(Clone, Debug, PartialEq)]
pub enum Spec {
    Rv { dim: usize, bounds: Option<Vec<(f64, f64)>>, frac: Option<f64> },
    So2 { bounds: Option<(f64, f64)>, frac: Option<f64> },
    So3 { bounds: Option<([f64; 4], f64)>, frac: Option<f64> },
    Cmp { parts: Vec<Spec>, weights: Vec<f64> },
    Se2 { weight: f64, bounds: Option<Vec<(f64, f64)>> },
    Se3 { weight: f64, bounds: Option<Vec<(f64, f64)>> },
}

impl Spec {
    pub fn json(&self) -> Value {
        json!(format!("{:?}", self))
    }
}

pub fn build_rv(dim: usize, bounds: &Option<Vec<(f64, f64)>>, frac: Option<f64>) -> RealVectorStateSpace {
    let mut sp = RealVectorStateSpace::new(dim, bounds.clone()).expect("rv spec");
    if let Some(f) = frac {
        sp.set_longest_valid_segment_fraction(f);
    }
    sp
}
pub fn build_so2(bounds: &Option<(f64, f64)>, frac: Option<f64>) -> SO2StateSpace {
    let mut sp = SO2StateSpace::new(*bounds).expect("so2 spec");
    if let Some(f) = frac {
        sp.set_longest_valid_segment_fraction(f);
    }
    sp
}
pub fn so3_of(q: &[f64; 4]) -> SO3State {
    SO3State::new(q[0], q[1], q[2], q[3])
}
pub fn build_so3(bounds: &Option<([f64; 4], f64)>, frac: Option<f64>) -> SO3StateSpace {
    let mut sp = SO3StateSpace::new(bounds.as_ref().map(|(c, r)| (so3_of(c), *r))).expect("so3 spec");
    if let Some(f) = frac {
        sp.set_longest_valid_segment_fraction(f);
    }
    sp
}
pub fn build_any(spec: &Spec) -> Box<dyn AnyStateSpace> {
    match spec {
        Spec::Rv { dim, bounds, frac } => Box::new(build_rv(*dim, bounds, *frac)),
        Spec::So2 { bounds, frac } => Box::new(build_so2(bounds, *frac)),
        Spec::So3 { bounds, frac } => Box::new(build_so3(bounds, *frac)),
        Spec::Cmp { .. } => Box::new(build_cmp(spec)),
        _ => panic!("SE2/SE3 cannot be nested"),
    }
}
pub fn build_cmp(spec: &Spec) -> CompoundStateSpace {
    match spec {
        Spec::Cmp { parts, weights } => {
            CompoundStateSpace::new(parts.iter().map(build_any).collect(), weights.clone())
        }
        _ => panic!("not a compound spec"),
    }
}

pub fn dyn_to_v(s: &dyn State) -> V {
    let a = s as &dyn Any;
    if let Some(x) = a.downcast_ref::<RealVectorState>() {
        V::Rv(x.values.clone())
    } else if let Some(x) = a.downcast_ref::<SO2State>() {
        V::So2(x.value)
    } else if let Some(x) = a.downcast_ref::<SO3State>() {
        V::So3([x.x, x.y, x.z, x.w])
    } else if let Some(x) = a.downcast_ref::<CompoundState>() {
        V::Cmp(x.components.iter().map(|c| dyn_to_v(&**c)).collect())
    } else if let Some(x) = a.downcast_ref::<SE2State>() {
        dyn_to_v(&x.0)
    } else if let Some(x) = a.downcast_ref::<SE3State>() {
        dyn_to_v(&x.0)
    } else {
        panic!("unknown state type")
    }
}
pub fn v_to_box(v: &V) -> Box<dyn State> {
    match v {
        V::Rv(x) => Box::new(RealVectorState { values: x.clone() }),
        V::So2(a) => Box::new(SO2State { value: *a }),
        V::So3(q) => Box::new(so3_of(q)),
        V::Cmp(c) => Box::new(CompoundState { components: c.iter().map(v_to_box).collect() }),
    }
}
fn enc_dyn(s: &dyn State, out: &mut Vec<u64>) {
    let a = s as &dyn Any;
    if let Some(x) = a.downcast_ref::<RealVectorState>() {
        out.push(0x1000 + x.values.len() as u64);
        out.extend(x.values.iter().map(|v| v.to_bits()));
    } else if let Some(x) = a.downcast_ref::<SO2State>() {
        out.push(0x2000);
        out.push(x.value.to_bits());
    } else if let Some(x) = a.downcast_ref::<SO3State>() {
        out.push(0x3000);
        out.extend([x.x, x.y, x.z, x.w].iter().map(|v| v.to_bits()));
    } else if let Some(x) = a.downcast_ref::<CompoundState>() {
        out.push(0x4000 + x.components.len() as u64);
        for c in &x.components {
            enc_dyn(&**c, out);
        }
    } else {
        panic!("unknown state type")
    }
}

pub trait Kit: Sized + 'static {
    type S: State + Clone;
    type SP: StateSpace<StateType = Self::S> + Clone + 'static;
    const NAME: &'static str;
    fn build(spec: &Spec) -> Self::SP;
    fn to_v(s: &Self::S) -> V;
    fn from_v(v: &V) -> Self::S;
    /// Bit encoding identical to `to_v(s).bits()` but without the intermediate value.
    fn enc(s: &Self::S, out: &mut Vec<u64>);
    fn bits(s: &Self::S) -> Vec<u64> {
        let mut o = Vec::with_capacity(8);
        Self::enc(s, &mut o);
        o
    }
    fn same(a: &Self::S, b: &Self::S) -> bool {
        Self::bits(a) == Self::bits(b)
    }
}

pub struct Rv;
pub struct So2;
pub struct So3;
pub struct Cmp;
pub struct Se2;
pub struct Se3;

impl Kit for Rv {
    type S = RealVectorState;
    type SP = RealVectorStateSpace;
    const NAME: &'static str = "RealVector";
    fn build(spec: &Spec) -> Self::SP {
        match spec {
            Spec::Rv { dim, bounds, frac } => build_rv(*dim, bounds, *frac),
            _ => panic!("spec/kit mismatch"),
        }
    }
    fn to_v(s: &Self::S) -> V {
        V::Rv(s.values.clone())
    }
    fn from_v(v: &V) -> Self::S {
        match v {
            V::Rv(x) => RealVectorState { values: x.clone() },
            _ => panic!("v/kit mismatch"),
        }
    }
    fn enc(s: &Self::S, out: &mut Vec<u64>) {
        out.push(0x1000 + s.values.len() as u64);
        out.extend(s.values.iter().map(|v| v.to_bits()));
    }
}
impl Kit for So2 {
    type S = SO2State;
    type SP = SO2StateSpace;
    const NAME: &'static str = "SO2";
    fn build(spec: &Spec) -> Self::SP {
        match spec {
            Spec::So2 { bounds, frac } => build_so2(bounds, *frac),
            _ => panic!("spec/kit mismatch"),
        }
    }
    fn to_v(s: &Self::S) -> V {
        V::So2(s.value)
    }
    fn from_v(v: &V) -> Self::S {
        match v {
            V::So2(a) => SO2State { value: *a },
            _ => panic!("v/kit mismatch"),
        }
    }
    fn enc(s: &Self::S, out: &mut Vec<u64>) {
        out.push(0x2000);
        out.push(s.value.to_bits());
    }
}
impl Kit for So3 {
    type S = SO3State;
    type SP = SO3StateSpace;
    const NAME: &'static str = "SO3";
    fn build(spec: &Spec) -> Self::SP {
        match spec {
            Spec::So3 { bounds, frac } => build_so3(bounds, *frac),
            _ => panic!("spec/kit mismatch"),
        }
    }
    fn to_v(s: &Self::S) -> V {
        V::So3([s.x, s.y, s.z, s.w])
    }
    fn from_v(v: &V) -> Self::S {
        match v {
            V::So3(q) => so3_of(q),
            _ => panic!("v/kit mismatch"),
        }
    }
    fn enc(s: &Self::S, out: &mut Vec<u64>) {
        out.push(0x3000);
        out.extend([s.x, s.y, s.z, s.w].iter().map(|v| v.to_bits()));
    }
}
impl Kit for Cmp {
    type S = CompoundState;
    type SP = CompoundStateSpace;
    const NAME: &'static str = "Compound";
    fn build(spec: &Spec) -> Self::SP {
        build_cmp(spec)
    }
    fn to_v(s: &Self::S) -> V {
        dyn_to_v(s)
    }
    fn from_v(v: &V) -> Self::S {
        match v {
            V::Cmp(c) => CompoundState { components: c.iter().map(v_to_box).collect() },
            _ => panic!("v/kit mismatch"),
        }
    }
    fn enc(s: &Self::S, out: &mut Vec<u64>) {
        enc_dyn(s, out)
    }
}
impl Kit for Se2 {
    type S = SE2State;
    type SP = SE2StateSpace;
    const NAME: &'static str = "SE2";
    fn build(spec: &Spec) -> Self::SP {
        match spec {
            Spec::Se2 { weight, bounds } => SE2StateSpace::new(*weight, bounds.clone()).expect("se2 spec"),
            _ => panic!("spec/kit mismatch"),
        }
    }
    fn to_v(s: &Self::S) -> V {
        dyn_to_v(&s.0)
    }
    fn from_v(v: &V) -> Self::S {
        SE2State(Cmp::from_v(v))
    }
    fn enc(s: &Self::S, out: &mut Vec<u64>) {
        enc_dyn(&s.0, out)
    }
}
impl Kit for Se3 {
    type S = SE3State;
    type SP = SE3StateSpace;
    const NAME: &'static str = "SE3";
    fn build(spec: &Spec) -> Self::SP {
        match spec {
            Spec::Se3 { weight, bounds } => SE3StateSpace::new(*weight, bounds.clone()).expect("se3 spec"),
            _ => panic!("spec/kit mismatch"),
        }
    }
    fn to_v(s: &Self::S) -> V {
        dyn_to_v(&s.0)
    }
    fn from_v(v: &V) -> Self::S {
        SE3State(Cmp::from_v(v))
    }
    fn enc(s: &Self::S, out: &mut Vec<u64>) {
        enc_dyn(&s.0, out)
    }
}

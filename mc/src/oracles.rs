//! Path oracles shared by C01–C05, C15, C18, C19.

use crate::kit::Kit;
use crate::refspace;
use crate::scen::Rig;
use oxmpl::base::space::StateSpace;

/// Tolerance for "x lies on the segment a-b": |d(a,x)+d(x,b)-d(a,b)| <= tau.
pub fn on_seg_tau(d: f64) -> f64 {
    1e-6 + 1e-9 * d
}

/// tau_space of C05: 0 except for spaces containing SO(3) (NLERP constant-speed error).
pub fn step_tau(kit: &str) -> f64 {
    match kit {
        "SO3" | "SE3" => 1e-5,
        _ => 0.0,
    }
}

pub struct EdgeCoverage {
    pub ok: bool,
    pub worst_gap: f64,
    pub b_accepted: bool,
    pub on_segment_queries: usize,
}

/// Oracle A of C03: accepted queries on the segment a-b leave no gap longer than L.
/// `log` = (seq, state, answer) validity queries to consider.
pub fn edge_covered<K: Kit>(rig: &Rig<K>, log: &[(u64, K::S, bool)], a: &K::S, b: &K::S) -> EdgeCoverage {
    let sp = &rig.space.inner;
    let d = sp.distance(a, b);
    let l = sp.get_longest_valid_segment_length();
    let bb = K::bits(b);
    let b_accepted = log.iter().any(|(_, s, ok)| *ok && K::bits(s) == bb);
    if d == 0.0 || !(d > 0.0) {
        // a zero-length segment has no stretch to cover
        return EdgeCoverage { ok: true, worst_gap: 0.0, b_accepted, on_segment_queries: 0 };
    }
    let tau = on_seg_tau(d);
    let mut pos: Vec<f64> = Vec::new();
    for (_, s, ok) in log {
        if !*ok {
            continue;
        }
        let da = sp.distance(a, s);
        if da > d + tau {
            continue;
        }
        let db = sp.distance(s, b);
        if (da + db - d).abs() <= tau {
            pos.push(da);
        }
    }
    pos.sort_by(|x, y| x.partial_cmp(y).unwrap());
    let mut worst: f64 = 0.0;
    let mut prev = 0.0;
    for p in &pos {
        worst = worst.max(p - prev);
        prev = *p;
    }
    worst = worst.max(d - prev);
    // The end state b need not have been queried bit-for-bit (interpolation at t = 1 may differ from
    // b in the last place); what the property demands is that no gap, including the last one up to
    // b, exceeds L. Validity of b itself is C01's subject.
    let ok = worst <= l * (1.0 + 1e-9) + 1e-12;
    EdgeCoverage { ok, worst_gap: worst, b_accepted, on_segment_queries: pos.len() }
}

#[derive(Clone, Copy, PartialEq, Eq, Debug)]
pub enum Motion {
    MustAccept,
    MustReject,
    Either,
}

/// Ground-truth classification of the motion a->b from the world predicate sampled at L/64.
/// Returns also the longest invalid run (in metric length) lying inside one obstacle.
pub fn classify_motion<K: Kit>(rig: &Rig<K>, a: &K::S, b: &K::S) -> (Motion, f64) {
    let sp = &rig.space.inner;
    let w = &rig.world;
    if !w.free(b) {
        return (Motion::MustReject, f64::INFINITY);
    }
    let d = sp.distance(a, b);
    let l = sp.get_longest_valid_segment_length();
    if !(d > 0.0) || !(l > 0.0) {
        return (Motion::MustAccept, 0.0);
    }
    let n = ((d / (l / 64.0)).ceil() as usize).clamp(1, 200_000);
    let h = d / n as f64;
    let mut x = a.clone();
    let mut any_invalid = false;
    let mut run_obst: Option<usize> = None;
    let mut run_len = 0usize;
    let mut longest = 0.0f64;
    for i in 1..=n {
        let t = i as f64 / n as f64;
        sp.interpolate(a, b, t, &mut x);
        match w.hit(&x) {
            None => {
                run_obst = None;
                run_len = 0;
            }
            Some(o) => {
                any_invalid = true;
                if run_obst == Some(o) {
                    run_len += 1;
                } else {
                    run_obst = Some(o);
                    run_len = 1;
                }
                longest = longest.max((run_len - 1) as f64 * h);
            }
        }
    }
    if !any_invalid {
        // The dense ground truth has spacing L/64: a sliver of obstacle thinner than that can hide between
        // two dense points and still be met by a planner's own check. The world is a pure predicate, so a
        // REJECTED validity query (anywhere in this rig's log) lying on this very segment proves that the
        // motion is not entirely valid - then nothing may be demanded of it.
        let tau = on_seg_tau(d);
        let seen_invalid = w.log.borrow().iter().any(|(_, s, ok)| !*ok && (sp.distance(a, s) + sp.distance(s, b) - d).abs() <= tau);
        if seen_invalid {
            return (Motion::Either, 0.0);
        }
        (Motion::MustAccept, 0.0)
    } else if longest >= l {
        (Motion::MustReject, longest)
    } else {
        (Motion::Either, longest)
    }
}

/// Independent bounds model on a path state (C04): rounding tolerance 1e-9 relative.
pub fn in_bounds_ref<K: Kit>(rig: &Rig<K>, s: &K::S) -> bool {
    refspace::in_bounds(&rig.sc.spec, &K::to_v(s), 1e-9, 1e-9)
}

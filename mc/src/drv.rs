//! Uniform driver over the four real planners.

use crate::kit::Kit;
use crate::seams::{HGoal, Scripted, World};
use oxmpl::base::error::PlanningError;
use oxmpl::base::planner::{Planner, PlannerConfig};
use oxmpl::base::problem_definition::ProblemDefinition;
use oxmpl::base::validity::StateValidityChecker;
use oxmpl::geometric::{RRTConnect, RRTStar, PRM, RRT};
use std::sync::Arc;
use std::time::Duration;

#[derive(Clone, Copy, PartialEq, Eq, Debug, Hash, PartialOrd, Ord)]
pub enum Pk {
    Rrt,
    Star,
    Connect,
    Prm,
}
impl Pk {
    pub const ALL: [Pk; 4] = [Pk::Rrt, Pk::Star, Pk::Connect, Pk::Prm];
    pub const TREES: [Pk; 3] = [Pk::Rrt, Pk::Star, Pk::Connect];
    pub fn name(self) -> &'static str {
        match self {
            Pk::Rrt => "RRT",
            Pk::Star => "RRTStar",
            Pk::Connect => "RRTConnect",
            Pk::Prm => "PRM",
        }
    }
    pub fn from_name(s: &str) -> Option<Pk> {
        Pk::ALL.iter().copied().find(|p| p.name() == s)
    }
}

#[derive(Clone, Debug, PartialEq)]
pub struct Params {
    pub pk: Pk,
    /// max_distance (tree planners) / connection_radius (PRM)
    pub step: f64,
    pub bias: f64,
    /// RRT* search radius
    pub radius: f64,
    /// PRM build timeout (seconds)
    pub prm_timeout: f64,
    pub seed: Option<u64>,
}
impl Params {
    pub fn json(&self) -> serde_json::Value {
        serde_json::json!({"planner": self.pk.name(), "step": self.step, "goal_bias": format!("{}", self.bias),
            "search_radius": self.radius, "prm_timeout": self.prm_timeout, "seed": self.seed})
    }
    /// The C05 limit for this planner.
    pub fn edge_limit(&self) -> f64 {
        match self.pk {
            Pk::Rrt | Pk::Connect => self.step,
            Pk::Star => self.step.max(self.radius),
            Pk::Prm => self.step,
        }
    }
}

pub type Pd<K> = ProblemDefinition<<K as Kit>::S, Scripted<K>, HGoal<K>>;

/// Node = (state, parent, cost) ; cost is NaN where the planner has none.
pub type TreeSnap<K> = Vec<(<K as Kit>::S, Option<usize>, f64)>;

pub enum Snap<K: Kit> {
    Tree(TreeSnap<K>),
    Two(TreeSnap<K>, TreeSnap<K>),
    Roadmap(Vec<(K::S, Vec<usize>)>),
}

impl<K: Kit> Snap<K> {
    /// Canonical, complete bit encoding (order preserved).
    pub fn key(&self) -> Vec<u64> {
        let mut o = Vec::new();
        let enc_tree = |t: &TreeSnap<K>, o: &mut Vec<u64>| {
            o.push(0xAAAA_0000 + t.len() as u64);
            for (s, p, c) in t {
                K::enc(s, o);
                o.push(p.map(|x| x as u64 + 1).unwrap_or(0));
                o.push(c.to_bits());
            }
        };
        match self {
            Snap::Tree(t) => enc_tree(t, &mut o),
            Snap::Two(a, b) => {
                enc_tree(a, &mut o);
                enc_tree(b, &mut o);
            }
            Snap::Roadmap(r) => {
                o.push(0xBBBB_0000 + r.len() as u64);
                for (s, e) in r {
                    K::enc(s, &mut o);
                    o.push(e.len() as u64);
                    o.extend(e.iter().map(|x| *x as u64));
                }
            }
        }
        o
    }
    pub fn node_count(&self) -> usize {
        match self {
            Snap::Tree(t) => t.len(),
            Snap::Two(a, b) => a.len() + b.len(),
            Snap::Roadmap(r) => r.len(),
        }
    }
    pub fn json(&self) -> serde_json::Value {
        let jt = |t: &TreeSnap<K>| {
            t.iter()
                .map(|(s, p, c)| serde_json::json!({"s": K::to_v(s).json(), "parent": p, "cost": if c.is_nan() { serde_json::Value::Null } else { serde_json::json!(c) }}))
                .collect::<Vec<_>>()
        };
        match self {
            Snap::Tree(t) => serde_json::json!({"tree": jt(t)}),
            Snap::Two(a, b) => serde_json::json!({"start_tree": jt(a), "goal_tree": jt(b)}),
            Snap::Roadmap(r) => serde_json::json!({"roadmap": r.iter().map(|(s, e)| serde_json::json!({"s": K::to_v(s).json(), "edges": e})).collect::<Vec<_>>()}),
        }
    }
}

pub enum Drv<K: Kit> {
    Rrt(RRT<K::S, Scripted<K>, HGoal<K>>),
    Star(RRTStar<K::S, Scripted<K>, HGoal<K>>),
    Connect(RRTConnect<K::S, Scripted<K>, HGoal<K>>),
    Prm(PRM<K::S, Scripted<K>, HGoal<K>>),
}

impl<K: Kit> Drv<K> {
    pub fn new(p: &Params) -> Self {
        let cfg = PlannerConfig { seed: p.seed };
        match p.pk {
            Pk::Rrt => Drv::Rrt(RRT::new(p.step, p.bias, &cfg)),
            Pk::Star => Drv::Star(RRTStar::new(p.step, p.bias, p.radius, &cfg)),
            Pk::Connect => Drv::Connect(RRTConnect::new(p.step, p.bias, &cfg)),
            Pk::Prm => Drv::Prm(PRM::new(p.prm_timeout, p.step, &cfg)),
        }
    }
    pub fn pk(&self) -> Pk {
        match self {
            Drv::Rrt(_) => Pk::Rrt,
            Drv::Star(_) => Pk::Star,
            Drv::Connect(_) => Pk::Connect,
            Drv::Prm(_) => Pk::Prm,
        }
    }
    pub fn setup(&mut self, pd: Arc<Pd<K>>, w: Arc<World<K>>) {
        let vc: Arc<dyn StateValidityChecker<K::S>> = w;
        match self {
            Drv::Rrt(p) => p.setup(pd, vc),
            Drv::Star(p) => p.setup(pd, vc),
            Drv::Connect(p) => p.setup(pd, vc),
            Drv::Prm(p) => p.setup(pd, vc),
        }
    }
    pub fn solve(&mut self, timeout: Duration) -> Result<Vec<K::S>, PlanningError> {
        match self {
            Drv::Rrt(p) => p.solve(timeout).map(|x| x.0),
            Drv::Star(p) => p.solve(timeout).map(|x| x.0),
            Drv::Connect(p) => p.solve(timeout).map(|x| x.0),
            Drv::Prm(p) => p.solve(timeout).map(|x| x.0),
        }
    }
    pub fn construct_roadmap(&mut self) -> Result<(), PlanningError> {
        match self {
            Drv::Prm(p) => p.construct_roadmap(),
            _ => panic!("construct_roadmap on a tree planner"),
        }
    }
    pub fn set_prm_timeout(&mut self, t: f64) {
        if let Drv::Prm(p) = self {
            p.timeout = t;
        }
    }
    /// the extension step (connection radius for PRM) is a public field too
    pub fn set_step(&mut self, v: f64) {
        match self {
            Drv::Rrt(p) => p.max_distance = v,
            Drv::Star(p) => p.max_distance = v,
            Drv::Connect(p) => p.max_distance = v,
            Drv::Prm(p) => p.connection_radius = v,
        }
    }
    /// the goal bias is a public field of the three tree planners
    pub fn set_goal_bias(&mut self, b: f64) {
        match self {
            Drv::Rrt(p) => p.goal_bias = b,
            Drv::Star(p) => p.goal_bias = b,
            Drv::Connect(p) => p.goal_bias = b,
            Drv::Prm(_) => {}
        }
    }
    pub fn set_problem_definition(&mut self, pd: Arc<Pd<K>>) {
        match self {
            Drv::Prm(p) => p.set_problem_definition(pd),
            _ => panic!("set_problem_definition on a tree planner"),
        }
    }
    pub fn snapshot(&self) -> Snap<K> {
        match self {
            Drv::Rrt(p) => Snap::Tree(p.verif_snapshot().into_iter().map(|(s, q)| (s, q, f64::NAN)).collect()),
            Drv::Star(p) => Snap::Tree(p.verif_snapshot()),
            Drv::Connect(p) => {
                let (a, b) = p.verif_snapshot();
                Snap::Two(
                    a.into_iter().map(|(s, q)| (s, q, f64::NAN)).collect(),
                    b.into_iter().map(|(s, q)| (s, q, f64::NAN)).collect(),
                )
            }
            Drv::Prm(p) => Snap::Roadmap(p.verif_snapshot()),
        }
    }
}

/// The same four planners over the REAL space type (no sampler seam): the planners are generic over
/// `StateSpace`, and the scripted wrapper forwards exactly the trait's required methods - a provided
/// method that a concrete space overrides (a specialised fast path) is only exercised through this driver.
pub type RawPd<K> = ProblemDefinition<<K as Kit>::S, <K as Kit>::SP, HGoal<K>>;
pub enum RawDrv<K: Kit> {
    Rrt(RRT<K::S, K::SP, HGoal<K>>),
    Star(RRTStar<K::S, K::SP, HGoal<K>>),
    Connect(RRTConnect<K::S, K::SP, HGoal<K>>),
    Prm(PRM<K::S, K::SP, HGoal<K>>),
}
impl<K: Kit> RawDrv<K> {
    pub fn new(p: &Params) -> Self {
        let cfg = PlannerConfig { seed: p.seed };
        match p.pk {
            Pk::Rrt => RawDrv::Rrt(RRT::new(p.step, p.bias, &cfg)),
            Pk::Star => RawDrv::Star(RRTStar::new(p.step, p.bias, p.radius, &cfg)),
            Pk::Connect => RawDrv::Connect(RRTConnect::new(p.step, p.bias, &cfg)),
            Pk::Prm => RawDrv::Prm(PRM::new(p.prm_timeout, p.step, &cfg)),
        }
    }
    pub fn setup(&mut self, pd: Arc<RawPd<K>>, w: Arc<World<K>>) {
        let vc: Arc<dyn StateValidityChecker<K::S>> = w;
        match self {
            RawDrv::Rrt(p) => p.setup(pd, vc),
            RawDrv::Star(p) => p.setup(pd, vc),
            RawDrv::Connect(p) => p.setup(pd, vc),
            RawDrv::Prm(p) => p.setup(pd, vc),
        }
    }
    pub fn solve(&mut self, timeout: Duration) -> Result<Vec<K::S>, PlanningError> {
        match self {
            RawDrv::Rrt(p) => p.solve(timeout).map(|x| x.0),
            RawDrv::Star(p) => p.solve(timeout).map(|x| x.0),
            RawDrv::Connect(p) => p.solve(timeout).map(|x| x.0),
            RawDrv::Prm(p) => p.solve(timeout).map(|x| x.0),
        }
    }
    pub fn construct_roadmap(&mut self) -> Result<(), PlanningError> {
        match self {
            RawDrv::Prm(p) => p.construct_roadmap(),
            _ => panic!("construct_roadmap on a tree planner"),
        }
    }
    pub fn set_prm_timeout(&mut self, t: f64) {
        if let RawDrv::Prm(p) = self {
            p.timeout = t;
        }
    }
    pub fn snapshot(&self) -> Snap<K> {
        match self {
            RawDrv::Rrt(p) => Snap::Tree(p.verif_snapshot().into_iter().map(|(s, q)| (s, q, f64::NAN)).collect()),
            RawDrv::Star(p) => Snap::Tree(p.verif_snapshot()),
            RawDrv::Connect(p) => {
                let (a, b) = p.verif_snapshot();
                Snap::Two(a.into_iter().map(|(s, q)| (s, q, f64::NAN)).collect(), b.into_iter().map(|(s, q)| (s, q, f64::NAN)).collect())
            }
            RawDrv::Prm(p) => Snap::Roadmap(p.verif_snapshot()),
        }
    }
}

/// Timeout that admits exactly `n` loop iterations under a 1 ms tick (n >= 0).
pub fn iters(n: usize) -> Duration {
    if n == 0 {
        // first deadline read returns 0 ns; `0 > 0` is false, so a zero timeout admits one
        // iteration in the real code. "no iterations" is not expressible; callers use n >= 1.
        panic!("iters(0)");
    }
    Duration::from_micros(n as u64 * 1000 - 500)
}
pub fn iters_secs(n: usize) -> f64 {
    (n as f64 - 0.5) * 1e-3
}

pub fn err_name(e: &PlanningError) -> &'static str {
    // by Debug name, so that a variant added to the library later does not stop the harness from
    // compiling (an unknown variant is reported under its own name by the oracles)
    match e {
        PlanningError::Timeout => "Timeout",
        PlanningError::NoSolutionFound => "NoSolutionFound",
        PlanningError::PlannerUninitialised => "PlannerUninitialised",
        PlanningError::InvalidStartState => "InvalidStartState",
        PlanningError::UnsampledStateSpace => "UnsampledStateSpace",
        #[allow(unreachable_patterns)]
        other => Box::leak(format!("{other:?}").into_boxed_str()),
    }
}

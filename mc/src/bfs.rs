//! Explicit-state breadth-first exploration of the real planners: a state is the complete planner
//! snapshot, a transition is one planning iteration on one alphabet letter, states are
//! de-duplicated by their bitwise snapshot key (DESIGN 1.4). Planner objects cannot be cloned, so a
//! state is re-created by replaying its (shortest) history on a fresh planner.

use crate::drv::Snap;
use crate::explore::{guarded, Caught};
use crate::kit::Kit;
use crate::report::{h128, Report};
use crate::scen::{Rig, Scenario};
use crate::seams;
use oxmpl::base::error::PlanningError;
use rayon::prelude::*;
use std::collections::HashSet;

pub struct Step<'a, K: Kit> {
    pub sc: &'a Scenario,
    pub hist: &'a [u8],
    pub letter: u8,
    pub pre: &'a Snap<K>,
    pub post: &'a Snap<K>,
    pub result: &'a Result<Vec<K::S>, PlanningError>,
    pub rig: &'a Rig<K>,
    /// number of validity-log entries before this step
    pub log_mark: usize,
    pub cb_before: [u64; 4],
    pub cb_after: [u64; 4],
    pub used: usize,
    /// true: the whole history ran inside as few solve calls as possible
    pub batch: bool,
    /// the sample of this iteration when it did not come from the alphabet (deep seeded runs)
    pub sample: Option<&'a K::S>,
}

pub struct BfsStats {
    pub states: usize,
    pub transitions: usize,
    pub max_depth: usize,
    pub cap_hit: bool,
}

/// BFS over a tree planner. `on_step` sees every transition (also those leading to known states).
/// Each layer's (state, letter) pairs are executed in parallel; de-duplication is sequential.
pub fn bfs_tree<K: Kit>(
    sc: &Scenario,
    letters: &[u8],
    depth: usize,
    max_states: usize,
    batch: bool,
    rep: &mut Report,
    on_step: &(dyn Fn(&Step<K>, &mut Report) + Sync),
    on_caught: &(dyn Fn(&[u8], u8, Caught, &mut Report) + Sync),
) -> BfsStats {
    let sc_h = h128(&sc.tag.bytes().map(|b| b as u64).collect::<Vec<_>>()) as u64;
    let mut seen: HashSet<u128> = HashSet::new();
    let mut stats = BfsStats { states: 0, transitions: 0, max_depth: 0, cap_hit: false };
    // initial state
    let init = match guarded(|| Rig::<K>::new(sc, true).snapshot()) {
        Ok(s) => s,
        Err(c) => {
            on_caught(&[], 0, c, rep);
            return stats;
        }
    };
    let key_of = |s: &Snap<K>| {
        let mut k = s.key();
        k.push(sc_h);
        h128(&k)
    };
    seen.insert(key_of(&init));
    rep.distinct.insert(key_of(&init));
    let mut frontier: Vec<(Vec<u8>, Snap<K>)> = vec![(vec![], init)];
    for d in 0..depth {
        let results: Vec<(Report, Vec<(u128, Vec<u8>, Snap<K>)>)> = frontier
            .par_iter()
            .map(|(hist, pre)| {
                let mut lrep = Report::new();
                let mut outs = Vec::new();
                for &l in letters {
                    crate::explore::watch_desc(|| format!("{{\"scenario\": {:?}, \"hist\": {:?}, \"letter\": {l}}}", sc.tag, hist));
                    let run = guarded(|| {
                        let mut rig = Rig::<K>::new(sc, true);
                        rig.logging(true);
                        if !hist.is_empty() {
                            rig.feed(hist);
                        }
                        let log_mark = rig.world.log.borrow().len();
                        let cb_before = seams::cb_counts();
                        let (result, used) = rig.solve_script(&[l]);
                        let cb_after = seams::cb_counts();
                        let post = rig.snapshot();
                        (rig, result, used, post, log_mark, cb_before, cb_after)
                    });
                    match run {
                        Err(c) => on_caught(hist, l, c, &mut lrep),
                        Ok((rig, result, used, post, log_mark, cb_before, cb_after)) => {
                            let st = Step { sc, hist, letter: l, pre, post: &post, result: &result, rig: &rig, log_mark, cb_before, cb_after, used, batch: false, sample: None };
                            on_step(&st, &mut lrep);
                            drop(rig);
                            // ---- batch mode: the same history fed through as few solve calls as
                            // possible (state that lives inside one call survives between iterations)
                            if batch && !hist.is_empty() {
                                let mut h2 = hist.clone();
                                h2.push(l);
                                let run2 = guarded(|| {
                                    let mut rig = Rig::<K>::new(sc, true);
                                    rig.logging(true);
                                    let calls = rig.feed(&h2);
                                    let post = rig.snapshot();
                                    let marks = seams::sample_marks();
                                    let cb_after = seams::cb_counts();
                                    (rig, calls, post, marks, cb_after)
                                });
                                match run2 {
                                    Err(c) => on_caught(hist, l, c, &mut lrep),
                                    Ok((rig2, mut calls, post2, marks, cb_after2)) => {
                                        // the last sampler call opened the last iteration
                                        if let (Some((seq, cb_before2)), Some((result2, _))) = (marks.last().cloned(), calls.pop()) {
                                            let log_mark2 = rig2.world.log.borrow().iter().position(|(q, _, _)| *q > seq).unwrap_or(rig2.world.log.borrow().len());
                                            lrep.count("batch_mode_transitions", 1);
                                            if post2.key() != post.key() {
                                                lrep.count("batch_vs_stepwise_trees_differ", 1);
                                            }
                                            let st2 = Step { sc, hist, letter: l, pre, post: &post2, result: &result2, rig: &rig2, log_mark: log_mark2, cb_before: cb_before2, cb_after: cb_after2, used: 1, batch: true, sample: None };
                                            on_step(&st2, &mut lrep);
                                        }
                                    }
                                }
                            }
                            let k = key_of(&post);
                            let mut h2 = hist.clone();
                            h2.push(l);
                            outs.push((k, h2, post));
                        }
                    }
                }
                (lrep, outs)
            })
            .collect();
        let mut next: Vec<(Vec<u8>, Snap<K>)> = Vec::new();
        for (lrep, outs) in results {
            rep.merge(lrep);
            stats.transitions += letters.len();
            for (k, h2, post) in outs {
                if seen.insert(k) {
                    rep.distinct.insert(k);
                    if seen.len() >= max_states {
                        stats.cap_hit = true;
                    } else {
                        next.push((h2, post));
                    }
                }
            }
        }
        if next.is_empty() {
            break;
        }
        stats.max_depth = d + 1;
        frontier = next;
    }
    stats.states = seen.len();
    rep.count("transitions", stats.transitions as u64);
    rep.max("max_depth", stats.max_depth as u64);
    if stats.cap_hit {
        rep.count("cap_hit", 1);
    }
    stats
}

pub struct PrmStep<'a, K: Kit> {
    pub sc: &'a Scenario,
    pub hist: &'a [u8],
    pub letter: u8,
    pub pre: &'a Snap<K>,
    pub post: &'a Snap<K>,
    /// rig after construct(hist + letter), logging on
    pub rig: &'a mut Rig<K>,
}

/// BFS over PRM roadmaps: state after k samples = construct_roadmap fed exactly those samples.
pub fn bfs_prm<K: Kit>(
    sc: &Scenario,
    letters: &[u8],
    depth: usize,
    max_states: usize,
    rep: &mut Report,
    on_step: &(dyn Fn(&mut PrmStep<K>, &mut Report) + Sync),
    on_caught: &(dyn Fn(&[u8], u8, Caught, &mut Report) + Sync),
) -> BfsStats {
    let sc_h = h128(&sc.tag.bytes().map(|b| b as u64).collect::<Vec<_>>()) as u64;
    let mut seen: HashSet<u128> = HashSet::new();
    let mut stats = BfsStats { states: 0, transitions: 0, max_depth: 0, cap_hit: false };
    let key_of = |s: &Snap<K>| {
        let mut k = s.key();
        k.push(sc_h);
        h128(&k)
    };
    let init: Snap<K> = Snap::Roadmap(vec![]);
    seen.insert(key_of(&init));
    let mut frontier: Vec<(Vec<u8>, Snap<K>)> = vec![(vec![], init)];
    for d in 0..depth {
        let results: Vec<(Report, Vec<(u128, Vec<u8>, Snap<K>)>)> = frontier
            .par_iter()
            .map(|(hist, pre)| {
                let mut lrep = Report::new();
                let mut outs = Vec::new();
                for &l in letters {
                    let mut h2 = hist.clone();
                    h2.push(l);
                    crate::explore::watch_desc(|| format!("{{\"scenario\": {:?}, \"samples\": {:?}}}", sc.tag, h2));
                    let run = guarded(|| {
                        let mut rig = Rig::<K>::new(sc, true);
                        rig.logging(true);
                        let r = rig.construct(&h2);
                        let post = rig.snapshot();
                        (rig, r, post)
                    });
                    match run {
                        Err(c) => on_caught(hist, l, c, &mut lrep),
                        Ok((mut rig, r, post)) => {
                            if r.is_err() {
                                lrep.engine_error(format!("construct_roadmap failed in {}: {:?}", sc.tag, r));
                                continue;
                            }
                            let mut st = PrmStep { sc, hist, letter: l, pre, post: &post, rig: &mut rig };
                            on_step(&mut st, &mut lrep);
                            drop(rig);
                            outs.push((key_of(&post), h2, post));
                        }
                    }
                }
                (lrep, outs)
            })
            .collect();
        let mut next = Vec::new();
        for (lrep, outs) in results {
            rep.merge(lrep);
            stats.transitions += letters.len();
            for (k, h2, post) in outs {
                if seen.insert(k) {
                    rep.distinct.insert(k);
                    if seen.len() >= max_states {
                        stats.cap_hit = true;
                    } else {
                        next.push((h2, post));
                    }
                }
            }
        }
        if next.is_empty() {
            break;
        }
        stats.max_depth = d + 1;
        frontier = next;
    }
    stats.states = seen.len();
    rep.count("transitions", stats.transitions as u64);
    rep.max("max_depth", stats.max_depth as u64);
    if stats.cap_hit {
        rep.count("cap_hit", 1);
    }
    stats
}

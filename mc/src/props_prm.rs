//! C18: PRM roadmap faithfulness and query completeness / hop-minimality, by explicit-state BFS
//! over roadmaps (one more sample per transition) with a reference graph model, and query
//! sequences (repeat construction, replaced problem, re-setup) in every reached state.

use crate::bfs::{bfs_prm, PrmStep};
use crate::catalog::{base_of, KITS};
use crate::drv::{Pd, Pk, Snap};
use crate::explore::{guarded, Caught, LONG};
use crate::kit::Kit;
use crate::oracles::{classify_motion, edge_covered, Motion};
use crate::report::{finish, CheckMeta, Report};
use crate::scen::{dist_fn, Rig, Scenario, WorldSpec};
use crate::seams::HGoal;
use crate::with_kit;
use oxmpl::base::error::PlanningError;
use oxmpl::base::space::StateSpace;
use rayon::prelude::*;
use serde_json::{json, Value};
use std::collections::VecDeque;
use std::sync::Arc;
use std::time::Instant;

fn depth_for(kit: &str, tier: &str) -> usize {
    // thorough: one sample deeper on the two cheapest spaces; SO(3) and the compound kinds keep the quick
    // depth and get the wider world / step / radius lattices, every call-boundary position and more seeds
    let deep = matches!(kit, "RealVector" | "SO2" | "SO3");
    match (tier, deep) {
        ("quick", true) => 4,
        ("quick", false) => 3,
        (_, true) if kit != "SO3" => 5,
        (_, true) => 4,
        (_, false) => 3,
    }
}

pub fn scenarios(tier: &str) -> Vec<Scenario> {
    let thorough = tier != "quick";
    let mut out = Vec::new();
    for kit in KITS {
        let b = base_of(kit);
        let worlds: Vec<WorldSpec> = if thorough {
            // the 8 obstacle subsets with an even number of obstacles (every obstacle and every pair occurs)
            let mut w = b.subset_worlds();
            w.retain(|x| x.obst.len() % 2 == 0 || x.name == "subset0001");
            w
        } else {
            vec![b.world_free(), b.world_named("subset0001", vec![b.obstacles[0].clone()]), b.world_named("subset0110", vec![b.obstacles[1].clone(), b.obstacles[2].clone()]), b.world_named("subset1111", b.obstacles.clone())]
        };
        let radii: Vec<f64> = if thorough { vec![0.6, 1.1, 1.6, 1e6] } else { vec![1.1, 1.6, 1e6] };
        for w in &worlds {
            for &r in &radii {
                out.push(b.scenario(w.clone(), b.params(Pk::Prm, r, 1.0, 0.0), &format!("C18/{kit}/{}/PRMr{r}", w.name)));
            }
        }
        // degenerate connection radii (free world): nothing is "closer than" 0, a negative number or NaN - no links,
        // no start connection, no answer
        for r in [f64::NAN, 0.0, -1.0] {
            out.push(b.scenario(b.world_free(), b.params(Pk::Prm, r, 1.0, 0.0), &format!("C18/{kit}/free/PRMr{r}/degenerate-radius")));
        }
        // a knife-edge world (R^2): a sliver whose closed face sits EXACTLY on a check point of the motion
        // between two alphabet states in one direction, an ulp off it in the other. Whether such a link
        // exists is the implementation's business (the sliver is far below the resolution) - but a link is
        // an undirected thing: both adjacency lists have it or neither.
        if kit == "RealVector" {
            if let Some(ob) = knife_edge_box(&b) {
                for &r in &[1.1, 1.6] {
                    out.push(b.scenario(b.world_named("knife-edge", vec![ob.clone()]), b.params(Pk::Prm, r, 1.0, 0.0), &format!("C18/{kit}/knife-edge/PRMr{r}")));
                }
            }
        }
    }
    out
}

/// A thin box whose closed lower face is the LARGER of the two floating-point values that the forward
/// and the backward interpolation produce for the same point of the segment between two alphabet
/// states (None if no check point of that segment rounds differently in the two directions).
fn knife_edge_box(b: &crate::catalog::Base) -> Option<crate::scen::ObstSpec> {
    use crate::kit::{Rv, V};
    let sp = Rv::build(&b.spec);
    let l = sp.get_longest_valid_segment_length();
    for (i, va) in b.alphabet.iter().enumerate() {
        for vb in b.alphabet.iter().skip(i + 1) {
            let (V::Rv(pa), V::Rv(pb)) = (va, vb) else { continue };
            if pa[1] != pb[1] || pa[0] == pb[0] {
                continue; // horizontal segments only: the box is a vertical slab
            }
            let (a, c) = (Rv::from_v(va), Rv::from_v(vb));
            let d = sp.distance(&a, &c);
            let n = (d / (l * 0.1)).ceil() as usize;
            if n < 4 {
                continue;
            }
            let mut x = a.clone();
            for k in 1..n {
                sp.interpolate(&a, &c, k as f64 / n as f64, &mut x);
                let fwd = x.values[0];
                sp.interpolate(&c, &a, (n - k) as f64 / n as f64, &mut x);
                let bwd = x.values[0];
                if fwd != bwd {
                    let lo = fwd.max(bwd);
                    // thinner than the spacing of the check points, so that no other check point falls inside
                    return Some(crate::scen::ObstSpec::Box2(lo, lo + 0.2 * d / n as f64, pa[1] - 0.05, pa[1] + 0.05));
                }
            }
        }
    }
    None
}

type Graph<K> = Vec<(<K as Kit>::S, Vec<usize>)>;

fn replay<K: Kit>(tier: &str, idx: usize, st: &PrmStep<K>, phase: &str, extra: Value) -> Value {
    json!({"kind": "prm", "prop": "C18", "tier": tier, "scenario_index": idx, "hist": st.hist, "letter": st.letter, "phase": phase,
           "scenario": st.sc.json(), "pre": st.pre.json(), "post": st.post.json(), "detail": extra})
}

/// Reference answer for a query on graph `g`: (must_succeed, may_succeed, min_hops_lower, min_hops_upper)
struct RefQuery {
    must: bool,
    may: bool,
    lower: usize,
    upper: usize,
    s0_sure: Vec<usize>,
    s0_maybe: Vec<usize>,
    goals: Vec<usize>,
}

fn hops(g_len: usize, adj: &dyn Fn(usize) -> Vec<usize>, src: &[usize], goals: &[usize]) -> usize {
    // multi-source BFS; number of milestones on the shortest chain (1 = a source is a goal)
    let mut dist = vec![usize::MAX; g_len];
    let mut q = VecDeque::new();
    for &s in src {
        if dist[s] == usize::MAX {
            dist[s] = 1;
            q.push_back(s);
        }
    }
    while let Some(u) = q.pop_front() {
        for v in adj(u) {
            if dist[v] == usize::MAX {
                dist[v] = dist[u] + 1;
                q.push_back(v);
            }
        }
    }
    goals.iter().map(|&t| dist[t]).min().unwrap_or(usize::MAX)
}

fn ref_query<K: Kit>(rig: &Rig<K>, g: &Graph<K>, start: &K::S, goal: &HGoal<K>) -> RefQuery {
    let sp = &rig.space.inner;
    let r = rig.sc.params.step;
    let rtol = 1e-12 * r.abs().max(1.0);
    let mut s0_sure = vec![];
    let mut s0_maybe = vec![];
    for (i, (s, _)) in g.iter().enumerate() {
        let d = sp.distance(start, s);
        if d < r + rtol {
            let (m, _) = classify_motion(rig, start, s);
            let rim = d >= r - rtol;
            match m {
                Motion::MustAccept if !rim => s0_sure.push(i),
                Motion::MustReject => {}
                _ => s0_maybe.push(i),
            }
        }
    }
    let goals: Vec<usize> = (0..g.len()).filter(|&i| goal.contains(&g[i].0)).collect();
    let adj = |u: usize| g[u].1.clone();
    let upper = hops(g.len(), &adj, &s0_sure, &goals);
    let mut all = s0_sure.clone();
    all.extend(&s0_maybe);
    let lower = hops(g.len(), &adj, &all, &goals);
    RefQuery { must: upper != usize::MAX, may: lower != usize::MAX, lower, upper, s0_sure, s0_maybe, goals }
}

/// Checks one query result against the reference. Returns failure (key, what).
fn check_query<K: Kit>(rig: &Rig<K>, g: &Graph<K>, start: &K::S, goal: &HGoal<K>, res: &Result<Vec<K::S>, PlanningError>, rep: &mut Report) -> Result<(), (String, String)> {
    if g.is_empty() {
        return match res {
            Err(PlanningError::UnsampledStateSpace) => Ok(()),
            other => Err(("empty-roadmap-not-reported".into(), format!("query on an empty roadmap returned {:?}", other.as_ref().map(|p| p.len())))),
        };
    }
    if !rig.world.free(start) {
        return match res {
            Err(PlanningError::InvalidStartState) => Ok(()),
            other => Err(("invalid-start-not-reported".into(), format!("query with an invalid start returned {:?}", other.as_ref().map(|p| p.len())))),
        };
    }
    let rq = ref_query::<K>(rig, g, start, goal);
    match res {
        Err(PlanningError::NoSolutionFound) => {
            rep.count("queries_no_solution", 1);
            if rq.must {
                return Err(("query-incomplete".into(), format!("NoSolutionFound although goal milestone(s) {:?} are graph-connected to start-reachable milestone(s) {:?}", rq.goals, rq.s0_sure)));
            }
            Ok(())
        }
        Err(e) => Err(("unexpected-error".into(), format!("query returned {e:?}"))),
        Ok(path) => {
            rep.count("queries_ok", 1);
            if !rq.may {
                return Err(("query-unsound".into(), "Ok although no goal milestone is connected to any milestone reachable from the start".into()));
            }
            if path.len() < 2 || !K::same(&path[0], start) {
                return Err(("path-does-not-start-at-start".into(), "returned path does not begin with the start state followed by a milestone".into()));
            }
            if !goal.contains(path.last().unwrap()) {
                return Err(("path-does-not-end-in-goal".into(), "last path state does not satisfy the goal".into()));
            }
            // the milestone chain: a walk in g matching the states (duplicates => candidate sets)
            let mut cand: Vec<usize> = (0..g.len()).filter(|&i| K::same(&g[i].0, &path[1]) && (rq.s0_sure.contains(&i) || rq.s0_maybe.contains(&i))).collect();
            if cand.is_empty() {
                return Err(("first-milestone-not-start-reachable".into(), "the first milestone of the path is not within the radius of the start by a valid motion".into()));
            }
            for k in 2..path.len() {
                let next: Vec<usize> = (0..g.len()).filter(|&j| K::same(&g[j].0, &path[k]) && cand.iter().any(|&i| g[i].1.contains(&j))).collect();
                if next.is_empty() {
                    return Err(("path-leaves-roadmap".into(), format!("path states {},{k} are not joined by a roadmap edge", k - 1)));
                }
                cand = next;
            }
            let n = path.len() - 1;
            rep.max("max_path_milestones", n as u64);
            if n > 1 {
                rep.count("multi_hop_paths", 1);
            }
            if n < rq.lower {
                return Err(("path-shorter-than-possible".into(), format!("path visits {n} milestones, reference minimum {}", rq.lower)));
            }
            if rq.upper != usize::MAX && n > rq.upper {
                return Err(("path-not-hop-minimal".into(), format!("path visits {n} milestones but {} suffice", rq.upper)));
            }
            Ok(())
        }
    }
}

fn on_step<K: Kit>(tier: &str, idx: usize, st: &mut PrmStep<K>, rep: &mut Report) {
    rep.count("traces_validated", 1);
    let (Snap::Roadmap(pre), Snap::Roadmap(post)) = (st.pre, st.post) else { return };
    let sp = st.rig.space.inner.clone();
    let r = st.sc.params.step;
    let rtol = 1e-12 * r.abs().max(1.0);
    let q = st.rig.alphabet[st.letter as usize].clone();
    macro_rules! fail {
        ($key:expr, $what:expr, $phase:expr) => {{
            let what: String = $what;
            rep.violate(format!("C18|PRM|{}", $key), what, || replay::<K>(tier, idx, st, $phase, json!({})));
            return;
        }};
    }
    // ---- a builder that drew more samples than the script assumed (several per deadline check):
    // the incremental comparison with `pre` does not apply; judge the whole roadmap from the log
    if st.rig.space.overdrawn.get() > 0 {
        rep.count("overdrawn_constructions", 1);
        let drawn: Vec<K::S> = st.rig.space.log.borrow().iter().map(|(_, s)| s.clone()).collect();
        let want: Vec<&K::S> = drawn.iter().filter(|s| st.rig.world.free(s)).collect();
        let same = want.len() == post.len() && want.iter().zip(post.iter()).all(|(a, (b, _))| K::same(a, b));
        if !same {
            fail!("milestones-not-exactly-valid-samples", format!("{} samples drawn, {} of them valid, roadmap has {} milestones (or other states)", drawn.len(), want.len(), post.len()), "construct");
        }
        for (i, (s, _)) in post.iter().enumerate() {
            if !st.rig.world.free(s) {
                fail!("invalid-milestone", format!("milestone {i} is rejected by the validity checker"), "construct");
            }
        }
        return;
    }
    // ---- milestone set
    let valid = st.rig.world.free(&q);
    let want_len = pre.len() + valid as usize;
    if post.len() != want_len {
        fail!("milestones-not-exactly-valid-samples", format!("sample valid: {valid}; roadmap went from {} to {} milestones", pre.len(), post.len()), "construct");
    }
    for i in 0..pre.len() {
        if !K::same(&pre[i].0, &post[i].0) {
            fail!("milestone-mutated", format!("milestone {i} changed state"), "construct");
        }
        // old links are kept and only the new index may be added (as sets: the order in which an
        // implementation stores the neighbours is its own business)
        let (a, b) = (&pre[i].1, &post[i].1);
        let kept = a.iter().all(|x| b.contains(x));
        let added: Vec<&usize> = b.iter().filter(|x| !a.contains(x)).collect();
        if !kept || added.iter().any(|&&x| x != pre.len()) || added.len() > 1 {
            fail!("old-adjacency-rewritten", format!("adjacency of milestone {i} changed from {a:?} to {b:?}"), "construct");
        }
    }
    if valid {
        rep.count("milestones_added", 1);
        let new = pre.len();
        if !K::same(&post[new].0, &q) {
            fail!("milestone-not-the-sample", "the new milestone is not the drawn sample".into(), "construct");
        }
        let log = st.rig.world.log.borrow();
        for i in 0..pre.len() {
            let has = post[new].1.contains(&i);
            let d = sp.distance(&q, &pre[i].0);
            let (m, _) = classify_motion(st.rig, &q, &pre[i].0);
            if has {
                rep.count("edges_added", 1);
                if !(d < r + rtol) {
                    drop(log);
                    fail!("edge-beyond-radius", format!("edge to milestone {i} at distance {d} >= radius {r}"), "construct");
                }
                if m == Motion::MustReject {
                    drop(log);
                    fail!("edge-through-obstacle", format!("edge to milestone {i} crosses an obstacle"), "construct");
                }
                let cov = edge_covered(st.rig, &log, &q, &pre[i].0);
                if !cov.ok {
                    drop(log);
                    fail!("edge-not-validated", format!("edge to milestone {i}: validity queries leave a gap {:.6} > L", cov.worst_gap), "construct");
                }
            } else if d < r - rtol && m == Motion::MustAccept {
                drop(log);
                fail!("edge-missing", format!("milestone {i} is at distance {d} < radius {r} with a valid motion but is not linked"), "construct");
            } else {
                rep.count("pairs_not_linked", 1);
            }
        }
    } else {
        rep.count("invalid_samples_discarded", 1);
    }
    // ---- structural invariants of the whole graph
    for (i, (_, e)) in post.iter().enumerate() {
        let mut seen = std::collections::HashSet::new();
        for &j in e {
            if j >= post.len() {
                fail!("edge-out-of-range", format!("milestone {i} lists neighbour {j}"), "construct");
            }
            if j == i {
                fail!("self-link", format!("milestone {i} is linked to itself"), "construct");
            }
            if !seen.insert(j) {
                fail!("duplicate-link", format!("milestone {i} lists neighbour {j} twice"), "construct");
            }
            if !post[j].1.contains(&i) {
                fail!("asymmetric-link", format!("milestone {i} lists {j} but not vice versa"), "construct");
            }
        }
    }
    // ---- queries in this state
    let start = st.rig.start.clone();
    let goal = st.rig.goal.clone();
    let res = guarded(|| st.rig.drv.solve(LONG));
    let res = match res {
        Ok(r) => r,
        Err(_) => fail!("query-panicked", "solve unwound".into(), "query-P1"),
    };
    if let Err((k, w)) = check_query::<K>(st.rig, post, &start, &goal, &res, rep) {
        fail!(k, w, "query-P1");
    }
    // ---- a query cut short by its own budget (zero, one deadline check): whatever it answers, the roadmap
    // is as it was, and what follows is answered from that roadmap
    let budgets: Vec<std::time::Duration> = if tier != "quick" {
        vec![std::time::Duration::ZERO, crate::drv::iters(1), crate::drv::iters(2)]
    } else if (st.hist.iter().map(|x| *x as usize).sum::<usize>() + st.letter as usize) % 4 == 1 {
        vec![std::time::Duration::ZERO]
    } else {
        vec![]
    };
    for budget in budgets {
        oxmpl::verif::clock_reset(1_000_000);
        let cut = guarded(|| st.rig.drv.solve(budget));
        rep.count("budgeted_queries", 1);
        match cut {
            Err(_) => fail!("query-panicked", "solve unwound under a short time budget".into(), "query-budget"),
            Ok(r) => {
                if matches!(r, Err(PlanningError::Timeout)) {
                    rep.count("budgeted_queries_timed_out", 1);
                } else if let Err((k, w)) = check_query::<K>(st.rig, post, &start, &goal, &r, rep) {
                    fail!(k, w, "query-budget");
                }
            }
        }
        if st.rig.snapshot().key() != st.post.key() {
            fail!("query-changed-roadmap", "a query that ran out of time modified the roadmap".into(), "query-budget");
        }
    }
    // ---- repeated construction: snapshot unchanged, no samples drawn
    if !post.is_empty() {
        let calls0 = st.rig.space.calls.get();
        let again = guarded(|| st.rig.drv.construct_roadmap());
        let snap2 = st.rig.snapshot();
        if !matches!(again, Ok(Ok(()))) {
            fail!("reconstruct-failed", "second construct_roadmap did not return Ok".into(), "reconstruct");
        }
        if snap2.key() != st.post.key() || st.rig.space.calls.get() != calls0 {
            fail!("reconstruct-changed-roadmap", "a repeated construct_roadmap call modified the roadmap or drew samples".into(), "reconstruct");
        }
        rep.count("reconstruct_checks", 1);
    }
    // ---- replaced problem: P2 = reverse direction (start at the goal centre, goal around the old start)
    let p2_start = K::from_v(&st.sc.goal_samples[0]);
    let dist = dist_fn::<K>(&st.sc.spec);
    let p2_goal = Arc::new(HGoal::<K>::new(vec![(st.rig.start.clone(), st.sc.goal_balls[0].1)], vec![st.rig.start.clone()], dist));
    let pd2 = Arc::new(Pd::<K> { space: st.rig.space.clone(), start_states: vec![p2_start.clone()], goal: p2_goal.clone() });
    st.rig.drv.set_problem_definition(pd2);
    let res2 = match guarded(|| st.rig.drv.solve(LONG)) {
        Ok(r) => r,
        Err(_) => fail!("query-panicked", "solve unwound after set_problem_definition".into(), "query-P2"),
    };
    if st.rig.snapshot().key() != st.post.key() {
        fail!("problem-replacement-changed-roadmap", "set_problem_definition + solve modified the roadmap".into(), "query-P2");
    }
    if let Err((k, w)) = check_query::<K>(st.rig, post, &p2_start, &p2_goal, &res2, rep) {
        fail!(format!("replaced-problem:{k}"), w, "query-P2");
    }
    rep.count("replaced_problem_queries", 1);
    // ---- P3: the original start with a goal around an interior alphabet state (goal milestones that
    // are one or more links away from the start connections), asked AFTER other - possibly failed -
    // queries on the same roadmap
    let b = base_of(st.sc.kit);
    let p3_centre = st.rig.alphabet[b.sub3[1] as usize].clone();
    let dist3 = dist_fn::<K>(&st.sc.spec);
    let p3_goal = Arc::new(HGoal::<K>::new(vec![(p3_centre.clone(), st.sc.goal_balls[0].1)], vec![p3_centre.clone()], dist3));
    let pd3 = Arc::new(Pd::<K> { space: st.rig.space.clone(), start_states: vec![start.clone()], goal: p3_goal.clone() });
    st.rig.drv.set_problem_definition(pd3);
    let res3q = match guarded(|| st.rig.drv.solve(LONG)) {
        Ok(r) => r,
        Err(_) => fail!("query-panicked", "solve unwound after the second set_problem_definition".into(), "query-P3"),
    };
    if let Err((k, w)) = check_query::<K>(st.rig, post, &start, &p3_goal, &res3q, rep) {
        fail!(format!("replaced-problem:{k}"), w, "query-P3");
    }
    // ---- P4: a start one unit in the last place away from a milestone (a pose read back from an earlier
    // answer after a conversion round trip), goal at that milestone: the path still begins with the start
    // itself, bit for bit
    if let Some((m, _)) = post.first() {
        let near = crate::lattice::next_up;
        let p4_start = K::from_v(&match K::to_v(m) {
            crate::kit::V::Rv(mut x) => {
                x[0] = near(x[0]);
                crate::kit::V::Rv(x)
            }
            crate::kit::V::So2(a) => crate::kit::V::So2(near(a)),
            crate::kit::V::So3(mut q) => {
                q[3] = near(q[3]);
                crate::kit::V::So3(q)
            }
            crate::kit::V::Cmp(mut c) => {
                c[0] = match c[0].clone() {
                    crate::kit::V::Rv(mut x) => {
                        x[0] = near(x[0]);
                        crate::kit::V::Rv(x)
                    }
                    other => other,
                };
                crate::kit::V::Cmp(c)
            }
        });
        if st.rig.world.free(&p4_start) && !K::same(&p4_start, m) {
            let dist4 = dist_fn::<K>(&st.sc.spec);
            let p4_goal = Arc::new(HGoal::<K>::new(vec![(m.clone(), 1e-6)], vec![m.clone()], dist4));
            let pd4 = Arc::new(Pd::<K> { space: st.rig.space.clone(), start_states: vec![p4_start.clone()], goal: p4_goal.clone() });
            st.rig.drv.set_problem_definition(pd4);
            let res4 = match guarded(|| st.rig.drv.solve(LONG)) {
                Ok(r) => r,
                Err(_) => fail!("query-panicked", "solve unwound for a start next to a milestone".into(), "query-P4"),
            };
            rep.count("near_milestone_start_queries", 1);
            if let Err((k, w)) = check_query::<K>(st.rig, post, &p4_start, &p4_goal, &res4, rep) {
                fail!(format!("replaced-problem:{k}"), w, "query-P4");
            }
        }
    }
    // ---- P7: a start that already lies in the goal region (goal = ball around the start): a query still
    // succeeds exactly when a milestone reachable from the start is connected to a milestone in the goal -
    // with no such milestone there is no answer, "the start is there already" included
    {
        let dist7 = dist_fn::<K>(&st.sc.spec);
        let p7_goal = Arc::new(HGoal::<K>::new(vec![(start.clone(), st.sc.goal_balls[0].1)], vec![start.clone()], dist7));
        let pd7 = Arc::new(Pd::<K> { space: st.rig.space.clone(), start_states: vec![start.clone()], goal: p7_goal.clone() });
        st.rig.drv.set_problem_definition(pd7);
        let res7 = match guarded(|| st.rig.drv.solve(LONG)) {
            Ok(r) => r,
            Err(_) => fail!("query-panicked", "solve unwound for a start inside the goal region".into(), "query-P7"),
        };
        rep.count("start_in_goal_queries", 1);
        if res7.is_err() {
            rep.count("start_in_goal_queries_without_answer", 1);
        }
        if let Err((k, w)) = check_query::<K>(st.rig, post, &start, &p7_goal, &res7, rep) {
            fail!(format!("replaced-problem:{k}"), w, "query-P7");
        }
    }
    // ---- queries are pure: the first problem asked again answers exactly as it did the first time
    st.rig.drv.set_problem_definition(st.rig.pd.clone());
    let res1b = match guarded(|| st.rig.drv.solve(LONG)) {
        Ok(r) => r,
        Err(_) => fail!("query-panicked", "solve unwound when the first problem was asked again".into(), "query-P1-again"),
    };
    let same_answer = match (&res, &res1b) {
        (Ok(a), Ok(b)) => a.len() == b.len() && a.iter().zip(b).all(|(x, y)| K::same(x, y)),
        (Err(a), Err(b)) => a == b,
        _ => false,
    };
    rep.count("repeated_first_queries", 1);
    if !same_answer {
        fail!("query-not-repeatable", format!("the same problem on the same roadmap answered {} first and {} after two other queries", match &res { Ok(p) => format!("Ok({} states)", p.len()), Err(e) => format!("{e:?}") }, match &res1b { Ok(p) => format!("Ok({} states)", p.len()), Err(e) => format!("{e:?}") }), "query-P1-again");
    }
    if st.rig.snapshot().key() != st.post.key() {
        fail!("problem-replacement-changed-roadmap", "the query sequence modified the roadmap".into(), "query-P1-again");
    }
    // (quick tier: P5 and P6 in every fourth state)
    let extra_queries = tier != "quick" || (st.hist.iter().map(|x| *x as usize).sum::<usize>() + st.letter as usize) % 4 == 0;
    // ---- P5: the reversed problem again, this time with an IDENTICAL space behind ANOTHER Arc (a helper
    // that builds problem definitions from scratch): the roadmap is a function of the samples, not of
    // which allocation holds the space - it stays, and the answer is P2's
    if extra_queries {
        let other_space = Arc::new(crate::seams::Scripted::<K>::new(K::build(&st.sc.spec), st.rig.alphabet.clone()));
        let pd5 = Arc::new(Pd::<K> { space: other_space, start_states: vec![p2_start.clone()], goal: p2_goal.clone() });
        st.rig.drv.set_problem_definition(pd5);
        let res5 = match guarded(|| st.rig.drv.solve(LONG)) {
            Ok(r) => r,
            Err(_) => fail!("query-panicked", "solve unwound for a problem whose space sits behind another Arc".into(), "query-P5"),
        };
        rep.count("other_arc_space_queries", 1);
        if st.rig.snapshot().key() != st.post.key() {
            fail!("problem-replacement-changed-roadmap", "set_problem_definition with an identical space behind another Arc modified the roadmap".into(), "query-P5");
        }
        if let Err((k, w)) = check_query::<K>(st.rig, post, &p2_start, &p2_goal, &res5, rep) {
            fail!(format!("replaced-problem:{k}"), w, "query-P5");
        }
    }
    // ---- P6: problems owned by the planner alone. A is installed and queried; B replaces it (A is freed);
    // C is allocated next - the allocator hands out A's block again - and asks the REVERSED question.
    // Whatever a planner remembers about "the problem I answered last" must not be keyed by its address.
    if extra_queries {
        let pa = Arc::new(Pd::<K> { space: st.rig.space.clone(), start_states: vec![start.clone()], goal: goal.clone() });
        let addr_a = Arc::as_ptr(&pa) as usize;
        st.rig.drv.set_problem_definition(pa);
        let _ = guarded(|| st.rig.drv.solve(LONG));
        // every part of C exists before A is freed, so that the next block of that size is C's
        let pb = Arc::new(Pd::<K> { space: st.rig.space.clone(), start_states: vec![p3_centre.clone()], goal: p3_goal.clone() });
        let (c_space, c_starts, c_goal) = (st.rig.space.clone(), vec![p2_start.clone()], p2_goal.clone());
        st.rig.drv.set_problem_definition(pb); // drops the planner's (only) reference to A
        let pc = Arc::new(Pd::<K> { space: c_space, start_states: c_starts, goal: c_goal });
        if Arc::as_ptr(&pc) as usize == addr_a {
            rep.count("problem_address_reused", 1);
        }
        st.rig.drv.set_problem_definition(pc);
        let res6 = match guarded(|| st.rig.drv.solve(LONG)) {
            Ok(r) => r,
            Err(_) => fail!("query-panicked", "solve unwound for a problem allocated where an earlier one lived".into(), "query-P6"),
        };
        rep.count("address_reuse_queries", 1);
        if let Err((k, w)) = check_query::<K>(st.rig, post, &p2_start, &p2_goal, &res6, rep) {
            fail!(format!("replaced-problem:{k}"), w, "query-P6");
        }
        if st.rig.snapshot().key() != st.post.key() {
            fail!("problem-replacement-changed-roadmap", "the query sequence modified the roadmap".into(), "query-P6");
        }
    }
    // ---- setup again clears the roadmap
    let (pd, w) = (st.rig.pd.clone(), st.rig.world.clone());
    st.rig.drv.setup(pd, w);
    let res3 = guarded(|| st.rig.drv.solve(LONG));
    if !matches!(res3, Ok(Err(PlanningError::UnsampledStateSpace))) || st.rig.snapshot().node_count() != 0 {
        fail!("setup-did-not-clear-roadmap", "after setup() a query must report UnsampledStateSpace".into(), "re-setup");
    }
    rep.sample(|| json!({"scenario": st.sc.tag, "samples": st.hist, "next": st.letter, "milestones": post.len(), "query": match &res { Ok(p) => format!("Ok({} states)", p.len()), Err(e) => format!("{e:?}") }}));
}

/// "Left unchanged by repeated construction calls" also after a construction that was cut short: the
/// uniform sampler fails once at its k-th call (every k), construct_roadmap returns (with an error or
/// not), and a second construct_roadmap call - the sampler working again, samples available - must leave
/// a non-empty roadmap exactly as it is and draw nothing.
fn interrupted_construction<K: Kit>(tier: &'static str, idx: usize, sc: &Scenario, rep: &mut Report) {
    let b = base_of(sc.kit);
    let depth = if tier == "quick" { 3 } else { 4 };
    crate::explore::for_each_seq(&b.sub4, depth, &[], |seq| {
        for k in 0..=seq.len() {
            for kind in [0u8, 1] {
                crate::explore::watch_desc(|| format!("{{\"scenario\": {:?}, \"samples\": {:?}, \"sampler_fails_at\": {k}}}", sc.tag, seq));
                let r = guarded(|| {
                    let mut rig = Rig::<K>::new(sc, true);
                    rig.space.fail_at.set(Some((k, kind)));
                    let first = rig.construct(seq);
                    let s1 = rig.snapshot();
                    let calls1 = rig.space.calls.get();
                    // more samples are on offer for the second call
                    rig.space.push_script(seq);
                    let second = rig.drv.construct_roadmap();
                    let s2 = rig.snapshot();
                    (first.is_ok(), second.is_ok(), s1.key(), s2.key(), s1.node_count(), s2.node_count(), rig.space.calls.get() - calls1)
                });
                let Ok((ok1, _ok2, k1, k2, n1, n2, drawn)) = r else {
                    rep.violate("C18|PRM|interrupted-construction-panicked".into(), "construct_roadmap unwound around a sampler failure".into(), || json!({"kind": "prm-interrupted", "prop": "C18", "scenario": sc.json(), "samples": seq, "sampler_fails_at": k}));
                    return;
                };
                rep.count("interrupted_constructions", 1);
                rep.count("traces_validated", 1);
                if !ok1 {
                    rep.count("interrupted_constructions_that_reported_an_error", 1);
                }
                if n1 > 0 && (k1 != k2 || drawn != 0) {
                    rep.violate("C18|PRM|reconstruct-changed-roadmap|after-interrupted-construction".into(), format!("after a construction cut short by a sampler failure at call {k} ({n1} milestones), a second construct_roadmap call drew {drawn} samples and left {n2} milestones"), || json!({"kind": "prm-interrupted", "prop": "C18", "tier": tier, "scenario_index": idx, "scenario": sc.json(), "samples": seq, "sampler_fails_at": k, "kind_of_error": kind}));
                    return;
                }
            }
        }
    });
}

/// Dense roadmaps: the real sampler and the seeded generator build a roadmap of 60-160 milestones with
/// a radius that makes (nearly) every pair a candidate - neighbourhoods of dozens of milestones, which
/// five alphabet samples cannot produce. The whole graph is then judged by the same laws: links
/// symmetric / irreflexive / duplicate-free / shorter than the radius / through no obstacle, every pair
/// closer than the radius with an entirely valid motion linked, and the query answered as the reference
/// graph search says. An enumerated-seed exploration, reported under its own counters.
fn dense_roadmap<K: Kit>(tier: &'static str, idx: usize, sc0: &Scenario, seed: u64, n_samples: usize, radius_mul: f64, rep: &mut Report) {
    let mut sc = sc0.clone();
    sc.params.seed = Some(seed);
    sc.params.step = sc0.params.step * radius_mul; // PRM: step = connection radius
    let info = json!({"mode": "dense-roadmap", "scenario_index": idx, "seed": seed, "samples": n_samples, "radius_mul": radius_mul});
    crate::props_deep::set_current(Some(info.clone()));
    crate::explore::watch_desc(|| json!({"dense": info, "scenario": sc.tag}).to_string());
    let rp = |extra: Value| json!({"kind": "deep", "prop": "C18", "tier": tier, "deep": info, "scenario": sc.json(), "detail": extra});
    let built = guarded(|| {
        let mut rig = Rig::<K>::new(&sc, true);
        rig.pass_through();
        rig.logging(true);
        oxmpl::verif::clock_reset(1_000_000);
        rig.drv.set_prm_timeout(crate::drv::iters_secs(n_samples));
        let r = rig.drv.construct_roadmap();
        (rig, r)
    });
    let (mut rig, r) = match built {
        Ok(x) => x,
        Err(Caught::Panic(msg)) => {
            rep.violate("C18|PRM|dense|panic".into(), format!("construct_roadmap unwound: {msg}"), || rp(json!({})));
            crate::props_deep::set_current(None);
            return;
        }
        Err(c) => {
            rep.engine_error(format!("dense roadmap {}: {c:?}", sc.tag));
            crate::props_deep::set_current(None);
            return;
        }
    };
    rep.count("dense_roadmaps", 1);
    if r.is_err() {
        rep.count("dense_constructions_with_error", 1);
    }
    let Snap::Roadmap(g) = rig.snapshot() else { unreachable!() };
    rep.max("max_dense_milestones", g.len() as u64);
    // the milestones are exactly the valid samples drawn, in order (a sample that was drawn and is valid is in the
    // roadmap even if the deadline passed while it was being linked)
    {
        let drawn: Vec<K::S> = rig.space.log.borrow().iter().map(|(_, s)| s.clone()).filter(|s| rig.world.free(s)).collect();
        rep.count("dense_sample_logs_compared", 1);
        if r.is_ok() && (drawn.len() != g.len() || drawn.iter().zip(g.iter()).any(|(a, (b, _))| !K::same(a, b))) {
            rep.violate("C18|PRM|dense|milestones-not-exactly-valid-samples".into(), format!("{} valid samples were drawn, the roadmap has {} milestones (or they differ)", drawn.len(), g.len()), || rp(json!({"milestones": g.len(), "valid_samples_drawn": drawn.len()})));
            crate::props_deep::set_current(None);
            return;
        }
    }
    if n_samples > 400 {
        // (the very large roadmaps exist for the sample accounting above; the pairwise laws are judged on the others)
        crate::props_deep::set_current(None);
        return;
    }
    rep.max("max_dense_degree", g.iter().map(|(_, e)| e.len()).max().unwrap_or(0) as u64);
    let sp = rig.space.inner.clone();
    let radius = sc.params.step;
    let rtol = 1e-12 * radius.abs().max(1.0);
    let mut bad: Option<(String, String)> = None;
    'outer: for (i, (si, ei)) in g.iter().enumerate() {
        if !rig.world.free(si) {
            bad = Some(("invalid-milestone".into(), format!("milestone {i} is rejected by the checker")));
            break;
        }
        let mut seen = std::collections::HashSet::new();
        for &j in ei {
            if j >= g.len() {
                bad = Some(("edge-out-of-range".into(), format!("milestone {i} lists {j}")));
                break 'outer;
            }
            if j == i {
                bad = Some(("self-link".into(), format!("milestone {i} lists itself")));
                break 'outer;
            }
            if !seen.insert(j) {
                bad = Some(("duplicate-link".into(), format!("milestone {i} lists {j} twice")));
                break 'outer;
            }
            if !g[j].1.contains(&i) {
                bad = Some(("asymmetric-link".into(), format!("milestone {i} lists {j} but not vice versa (degree of {i}: {}, of {j}: {})", ei.len(), g[j].1.len())));
                break 'outer;
            }
        }
        for j in (i + 1)..g.len() {
            let d = sp.distance(si, &g[j].0);
            let linked = ei.contains(&j);
            rep.count("dense_pairs_checked", 1);
            if linked {
                if d > radius + rtol {
                    bad = Some(("link-longer-than-radius".into(), format!("milestones {i},{j} are {d} apart, radius {radius}")));
                    break 'outer;
                }
                if classify_motion(&rig, si, &g[j].0).0 == Motion::MustReject {
                    bad = Some(("link-through-obstacle".into(), format!("link {i}-{j} crosses an obstacle")));
                    break 'outer;
                }
            } else if d < radius - rtol && (classify_motion(&rig, si, &g[j].0).0 == Motion::MustAccept && classify_motion(&rig, &g[j].0, si).0 == Motion::MustAccept) {
                bad = Some(("valid-pair-not-linked".into(), format!("milestones {i},{j} are {d} apart (radius {radius}) with an entirely valid motion but are not linked")));
                break 'outer;
            }
        }
    }
    if let Some((k, w)) = bad {
        rep.violate(format!("C18|PRM|dense|{k}"), w, || rp(json!({"milestones": g.len()})));
        crate::props_deep::set_current(None);
        return;
    }
    // the query, and the reversed one
    let (start, goal) = (rig.start.clone(), rig.goal.clone());
    if let Ok(res) = guarded(|| rig.drv.solve(LONG)) {
        rep.count("dense_queries", 1);
        if let Err((k, w)) = check_query::<K>(&rig, &g, &start, &goal, &res, rep) {
            rep.violate(format!("C18|PRM|dense|{k}"), w, || rp(json!({"milestones": g.len()})));
        }
    }
    let p2_start = K::from_v(&sc.goal_samples[0]);
    let p2_goal = Arc::new(HGoal::<K>::new(vec![(start.clone(), sc.goal_balls[0].1)], vec![start.clone()], dist_fn::<K>(&sc.spec)));
    let pd2 = Arc::new(Pd::<K> { space: rig.space.clone(), start_states: vec![p2_start.clone()], goal: p2_goal.clone() });
    rig.drv.set_problem_definition(pd2);
    if let Ok(res) = guarded(|| rig.drv.solve(LONG)) {
        rep.count("dense_queries", 1);
        if let Err((k, w)) = check_query::<K>(&rig, &g, &p2_start, &p2_goal, &res, rep) {
            rep.violate(format!("C18|PRM|dense|replaced-problem:{k}"), w, || rp(json!({"milestones": g.len()})));
        }
    }
    crate::props_deep::set_current(None);
}

fn run_one<K: Kit>(tier: &'static str, idx: usize, sc: &Scenario, letters: Option<&[u8]>, depth: Option<usize>) -> Report {
    let mut rep = Report::new();
    let letters: Vec<u8> = letters.map(|l| l.to_vec()).unwrap_or_else(|| (0..sc.alphabet.len() as u8).collect());
    let depth = depth.unwrap_or_else(|| depth_for(sc.kit, tier));
    let step = |st: &mut PrmStep<K>, rep: &mut Report| on_step::<K>(tier, idx, st, rep);
    let oc = |hist: &[u8], l: u8, c: Caught, rep: &mut Report| match c {
        Caught::Panic(msg) => {
            let loc = msg.rsplit(" @ ").next().unwrap_or("").to_string();
            rep.violate(format!("C18|PRM|panic:{loc}"), format!("planner call unwound: {msg}"), || json!({"kind": "prm", "prop": "C18", "tier": tier, "scenario_index": idx, "hist": hist, "letter": l, "panic": msg}))
        }
        Caught::Harness(m) => rep.engine_error(format!("harness panic in {}: {m}", sc.tag)),
        Caught::WorkCap(n) => rep.engine_error(format!("work cap {n} hit in {}", sc.tag)),
        Caught::ScriptExhausted => rep.engine_error(format!("script exhausted in {}", sc.tag)),
    };
    let max_states = if tier == "quick" { 200_000 } else { 2_000_000 };
    bfs_prm::<K>(sc, &letters, depth, max_states, &mut rep, &step, &oc);
    if sc.world.name == "subset0001" && depth_for(sc.kit, tier) == depth {
        interrupted_construction::<K>(tier, idx, sc, &mut rep);
    }
    rep
}

fn run_kit<K: Kit>(tier: &'static str, scs: &[(usize, Scenario)]) -> Report {
    if scs.is_empty() {
        return Report::new();
    }
    let b = base_of(scs[0].1.kit);
    let mut jobs: Vec<(usize, &Scenario, Option<Vec<u8>>, Option<usize>)> = Vec::new();
    for (i, sc) in scs {
        jobs.push((*i, sc, None, None));
        if tier != "quick" {
            jobs.push((*i, sc, Some(b.sub4.clone()), Some(7)));
            jobs.push((*i, sc, Some(b.sub3.clone()), Some(9)));
        }
    }
    let mut rep = jobs.par_iter().map(|(i, sc, l, d)| run_one::<K>(tier, *i, sc, l.as_deref(), *d)).reduce(Report::new, |mut a, b| {
        a.merge(b);
        a
    });
    // dense roadmaps (seed lattice x two radii), on the free world and the one-obstacle world of the largest radius
    let (seeds, n) = if tier == "quick" { (2u64, 64usize) } else { (16, 150) };
    let dense: Vec<(usize, &Scenario, u64, f64)> = scs
        .iter()
        .filter(|(_, s)| (s.world.name == "free" || s.world.name == "subset0000" || s.world.name == "subset0001") && s.tag.ends_with("PRMr1.6"))
        .flat_map(|(i, s)| (0..seeds).flat_map(move |seed| [(*i, s, seed, 1.0), (*i, s, seed, 1e6)]))
        .collect();
    // roadmaps of more than 512 milestones under two consecutive budgets (a deadline poll inside the linking scan of
    // large roadmaps fires, for one of the two parities, while a drawn sample is half linked)
    let big: Vec<(usize, &Scenario, u64, f64, usize)> = scs
        .iter()
        .filter(|(_, s)| s.world.name == "free" && s.tag.ends_with("PRMr1.1") && (s.kit == "RealVector" || tier != "quick"))
        .flat_map(|(i, s)| [530usize, 531, 1040, 1041].into_iter().filter(move |n| *n < 1000 || tier != "quick").map(move |n| (*i, s, 0u64, 1.0, n)))
        .collect();
    let mut all: Vec<(usize, &Scenario, u64, f64, usize)> = dense.iter().map(|(i, s, seed, rm)| (*i, *s, *seed, *rm, n)).collect();
    all.extend(big);
    let dr = all
        .par_iter()
        .map(|(i, sc, seed, rm, n)| {
            let mut r = Report::new();
            dense_roadmap::<K>(tier, *i, sc, *seed, *n, *rm, &mut r);
            r
        })
        .reduce(Report::new, |mut a, b| {
            a.merge(b);
            a
        });
    rep.merge(dr);
    rep
}

pub fn run(tier: &'static str) -> i32 {
    let t0 = Instant::now();
    let all = scenarios(tier);
    let mut rep = Report::new();
    rep.count("scenarios", all.len() as u64);
    for kit in KITS {
        let scs: Vec<(usize, Scenario)> = all.iter().cloned().enumerate().filter(|(_, s)| s.kit == kit).collect();
        let r = with_kit!(kit, run_kit(tier, &scs));
        rep.merge(r);
    }
    let meta = CheckMeta {
        prop: "C18",
        tier,
        level: "model_checking",
        rule: "explicit-state BFS over real PRM roadmaps: state = bitwise roadmap snapshot, transition = one more sample from the alphabet; every transition is compared with a reference graph model and followed by the query sequence solve / construct again / set_problem_definition(P2)+solve / setup+solve; distinct_nontrivial = distinct roadmaps",
        exhaustive: true,
        bounds: json!({"depth_primitive_spaces": depth_for("RealVector", tier), "depth_compound_spaces": depth_for("SE2", tier), "scenarios": all.len()}),
        assumptions: vec![
            "the roadmap is built by one construct_roadmap call whose logical-clock budget admits exactly the scripted samples".into(),
            "motions in the grey zone (an invalid stretch shorter than L) may be accepted or rejected".into(),
        ],
        must_be_positive: vec!["milestones_added", "invalid_samples_discarded", "edges_added", "pairs_not_linked", "queries_ok", "queries_no_solution", "multi_hop_paths", "reconstruct_checks", "replaced_problem_queries", "interrupted_constructions", "interrupted_constructions_that_reported_an_error", "dense_roadmaps", "dense_queries", "other_arc_space_queries", "budgeted_queries_timed_out"],
    };
    finish(&meta, rep, t0)
}

pub fn replay_file(v: &Value) -> i32 {
    let tier: &'static str = Box::leak(v["tier"].as_str().unwrap().to_string().into_boxed_str());
    let idx = v["scenario_index"].as_u64().unwrap() as usize;
    let hist: Vec<u8> = v["hist"].as_array().unwrap().iter().map(|x| x.as_u64().unwrap() as u8).collect();
    let letter = v["letter"].as_u64().unwrap() as u8;
    let all = scenarios(tier);
    let sc = &all[idx];
    let r1 = with_kit!(sc.kit, replay_one(tier, idx, sc, &hist, letter));
    let r2 = with_kit!(sc.kit, replay_one(tier, idx, sc, &hist, letter));
    if r1.viol_counts.keys().collect::<Vec<_>>() != r2.viol_counts.keys().collect::<Vec<_>>() {
        crate::report::out("ENGINE-ERROR: replay is not deterministic");
        return 2;
    }
    if r1.viol_counts.is_empty() {
        crate::report::out("replay: property C18 holds on this transition");
        0
    } else {
        for v in &r1.violations {
            crate::report::out(&format!("replay: {} -- {}", v.key, v.what));
        }
        crate::report::out("VIOLATION property=C18 replay=(replayed)");
        1
    }
}

fn replay_one<K: Kit>(tier: &'static str, idx: usize, sc: &Scenario, hist: &[u8], letter: u8) -> Report {
    let mut rep = Report::new();
    let mk = |h: &[u8]| {
        guarded(|| {
            let mut rig = Rig::<K>::new(sc, true);
            rig.logging(true);
            let _ = rig.construct(h);
            let s = rig.snapshot();
            (rig, s)
        })
    };
    let Ok((_, pre)) = mk(hist) else { return rep };
    let mut h2 = hist.to_vec();
    h2.push(letter);
    let Ok((mut rig, post)) = mk(&h2) else { return rep };
    let mut st = PrmStep { sc, hist, letter, pre: &pre, post: &post, rig: &mut rig };
    on_step::<K>(tier, idx, &mut st, &mut rep);
    rep
}

//! Structured state lattices for the state-space law checks (C09–C13): special values chosen from
//! the code's own branch conditions. Everything is enumerated exhaustively.

use crate::catalog::quat_axis_angle;
use crate::kit::{Spec, V};
use crate::refspace::quat_mul;
use std::f64::consts::PI;

pub fn next_up(x: f64) -> f64 {
    if x == 0.0 {
        return f64::from_bits(1);
    }
    let b = x.to_bits();
    f64::from_bits(if x > 0.0 { b + 1 } else { b - 1 })
}
pub fn next_down(x: f64) -> f64 {
    -next_up(-x)
}

pub fn rv_coords() -> Vec<f64> {
    vec![0.0, 1.0, -1.0, 0.5, -0.5, 1e-8, -1e-8, 1e150, -1e150]
}

/// R^n lattice: n = 1: the 9 coordinates; n = 2: all 81 pairs; n >= 3: alternating (a, b, a, b, …)
/// for all 81 pairs plus the unit-like vectors e_i * c.
pub fn rv_lattice(n: usize) -> Vec<V> {
    let c = rv_coords();
    let mut out = Vec::new();
    if n == 1 {
        for a in &c {
            out.push(V::Rv(vec![*a]));
        }
    } else {
        for a in &c {
            for b in &c {
                out.push(V::Rv((0..n).map(|i| if i % 2 == 0 { *a } else { *b }).collect()));
            }
        }
        if n >= 3 {
            for i in 0..n {
                for v in [1.0, -0.5, 1e150] {
                    let mut x = vec![0.0; n];
                    x[i] = v;
                    out.push(V::Rv(x));
                }
            }
        }
    }
    out
}

pub fn so2_angles(thorough: bool) -> Vec<f64> {
    let mut v = vec![
        0.0,
        PI,
        -PI,
        next_up(PI),
        next_down(PI),
        next_up(-PI),
        next_down(-PI),
        PI / 2.0,
        -PI / 2.0,
        1.5 * PI,
        -1.5 * PI,
        2.0 * PI,
        -2.0 * PI,
        PI - 1e-9,
        -(PI - 1e-9),
        1e-300,
        -1e-300,
        1.0,
        -1.0,
        3.0,
        -3.0,
        7.0,
        -7.0,
        1.0 + 2.0 * PI,
        1.0 - 4.0 * PI,
        1e6,
        -1e6,
        1e15,
        -1e15,
        1e300,
        -1e300,
    ];
    if thorough {
        for k in 1..=12 {
            v.push(k as f64 * PI / 6.0 + 1e-12);
            v.push(-(k as f64) * PI / 6.0 - 1e-12);
        }
        v.push(0.1 + 20.0 * PI);
        v.push(1e22);
    }
    v
}
pub fn so2_lattice(thorough: bool) -> Vec<V> {
    so2_angles(thorough).into_iter().map(V::So2).collect()
}
/// canonical in-range angles only (for use where inputs must be canonical)
pub fn so2_canonical() -> Vec<f64> {
    vec![0.0, PI, -PI, next_down(PI), next_up(-PI), PI / 2.0, -PI / 2.0, PI - 1e-9, -(PI - 1e-9), 1e-300, -1e-300, 1.0, -1.0, 3.0, -3.0, 2.2, -2.9, 2.9]
}

fn unit(q: [f64; 4]) -> [f64; 4] {
    let n = (q[0] * q[0] + q[1] * q[1] + q[2] * q[2] + q[3] * q[3]).sqrt();
    [q[0] / n, q[1] / n, q[2] / n, q[3] / n]
}
fn neg(q: [f64; 4]) -> [f64; 4] {
    [-q[0], -q[1], -q[2], -q[3]]
}

/// rotation about z by the angle whose half-angle cosine is `dot` (so that dot(I, q) = dot)
fn z_with_dot(dot: f64) -> [f64; 4] {
    let s = (1.0 - dot * dot).max(0.0).sqrt();
    unit([0.0, 0.0, s, dot])
}

pub fn so3_quats(thorough: bool) -> Vec<[f64; 4]> {
    let x = [1.0, 0.0, 0.0];
    let y = [0.0, 1.0, 0.0];
    let z = [0.0, 0.0, 1.0];
    let d = [1.0, 1.0, 1.0];
    let id = [0.0, 0.0, 0.0, 1.0];
    let mut v = vec![
        id,
        neg(id),
        quat_axis_angle(x, 90.0),
        quat_axis_angle(y, 90.0),
        quat_axis_angle(z, 90.0),
        quat_axis_angle(x, 180.0),
        quat_axis_angle(y, 180.0),
        quat_axis_angle(z, 180.0),
        quat_axis_angle(d, 120.0),
        quat_axis_angle(d, 240.0),
        neg(quat_axis_angle(z, 90.0)),
        quat_axis_angle(z, 2.0),
        quat_axis_angle(z, -2.0),
        // dot products with the identity around the LERP/SLERP switch and around 0 / 1
        z_with_dot(0.9994),
        z_with_dot(0.9995),
        z_with_dot(0.99951),
        neg(z_with_dot(0.9994)),
        neg(z_with_dot(0.99951)),
        z_with_dot(1.0 - 1e-16),
        z_with_dot(1e-17),
        z_with_dot(-1e-17),
        z_with_dot(0.5),
        quat_mul(&quat_axis_angle(x, 90.0), &quat_axis_angle(z, 90.0)),
        quat_mul(&quat_axis_angle(y, 37.0), &quat_axis_angle(x, 111.0)),
        unit([0.5, -0.5, 0.5, 0.5]),
        unit([1.0, 2.0, 3.0, 4.0]),
        // legal unit quaternions whose self dot product rounds to 1 + ulp (1/sqrt2 squared is
        // 0.5000000000000001): |dot(q, -q)| then exceeds 1 before any clamping
        [std::f64::consts::FRAC_1_SQRT_2, 0.0, 0.0, std::f64::consts::FRAC_1_SQRT_2],
        neg([std::f64::consts::FRAC_1_SQRT_2, 0.0, 0.0, std::f64::consts::FRAC_1_SQRT_2]),
        [0.0, std::f64::consts::FRAC_1_SQRT_2, 0.0, -std::f64::consts::FRAC_1_SQRT_2],
        [0.0, 0.0, std::f64::consts::FRAC_1_SQRT_2, std::f64::consts::FRAC_1_SQRT_2],
        [std::f64::consts::FRAC_1_SQRT_2, std::f64::consts::FRAC_1_SQRT_2, 0.0, 0.0],
        neg([std::f64::consts::FRAC_1_SQRT_2, std::f64::consts::FRAC_1_SQRT_2, 0.0, 0.0]),
    ];
    // a ladder of small rotations (2.6e-3 ... 8.7e-6 rad) next to the identity and next to Rx90: pairs that
    // are "almost the same rotation" at every order of magnitude, not only at the 0.9995 switch
    for deg in [0.15, 0.05, 0.005, 0.0005] {
        v.push(quat_axis_angle(z, deg));
        v.push(neg(quat_mul(&quat_axis_angle(x, 90.0), &quat_axis_angle(d, deg))));
    }
    if thorough {
        for a in [1.0, 10.0, 30.0, 60.0, 100.0, 150.0, 179.0, 179.999999] {
            v.push(quat_axis_angle(x, a));
            v.push(quat_axis_angle([1.0, -2.0, 0.5], a));
        }
        v.push(z_with_dot(0.99949999));
        v.push(z_with_dot(0.99950001));
        // a grid of axes x angles (tiny, either side of the 0.9995 switch, right angles, next to and at the half turn)
        for ax in [x, y, z, [1.0, 1.0, 0.0], [1.0, 0.0, -1.0], [0.0, 1.0, 1.0], d, [0.3, -0.7, 0.2]] {
            for a in [0.001, 0.1, 3.6, 3.63, 45.0, 135.0, 179.99, 180.0] {
                v.push(quat_axis_angle(ax, a));
            }
        }
    }
    v
}
pub fn so3_lattice(thorough: bool) -> Vec<V> {
    so3_quats(thorough).into_iter().map(V::So3).collect()
}

pub fn t_lattice() -> Vec<f64> {
    vec![0.0, 1e-12, 0.25, 1.0 / 3.0, 0.5, 0.75, 1.0 - 1e-12, 1.0]
}

/// Small per-component sub-lattices for compound products.
fn sub_lattice(spec: &Spec) -> Vec<V> {
    match spec {
        Spec::Rv { dim, .. } => {
            let mk = |a: f64, b: f64| V::Rv((0..*dim).map(|i| if i % 2 == 0 { a } else { b }).collect());
            vec![mk(0.0, 0.0), mk(1.0, -0.5), mk(-1.0, 1e-8), mk(3.0, 4.0)]
        }
        Spec::So2 { .. } => vec![V::So2(0.0), V::So2(3.0), V::So2(-3.0), V::So2(PI)],
        Spec::So3 { .. } => vec![
            V::So3([0.0, 0.0, 0.0, 1.0]),
            V::So3(quat_axis_angle([0.0, 0.0, 1.0], 90.0)),
            V::So3(neg(quat_axis_angle([0.0, 0.0, 1.0], 2.0))),
            V::So3(quat_axis_angle([1.0, 0.0, 0.0], 180.0)),
            // a unit quaternion whose dot product with itself rounds below 1: the space's distance from it to itself
            // is 4e-8, not 0 (whatever a compound makes of that, it is what its component reports)
            V::So3(unit([1.0, 2.0, 3.0, 4.0])),
        ],
        // a compound as a component: every third state of its own product lattice (at least 3)
        Spec::Cmp { parts, .. } => {
            let full = compound_lattice(parts);
            let step = (full.len() / 4).max(1);
            full.into_iter().step_by(step).take(4).collect()
        }
        _ => unreachable!(),
    }
}

/// Per-component states for the bounds operations of compounds: outside the bounds, on a bound,
/// and inside the bounds as a configuration but stored non-canonically (an angle one or two turns
/// off, the +pi representative of the seam, a quaternion of length 2 or 1e-3, -q).
fn wild_sub_lattice(spec: &Spec) -> Vec<V> {
    match spec {
        Spec::Rv { dim, .. } => {
            let mk = |a: f64, b: f64| V::Rv((0..*dim).map(|i| if i % 2 == 0 { a } else { b }).collect());
            // (the last three: a hair beyond / inside the bound 5 of the C13 component boxes)
            vec![mk(0.5, -0.5), mk(9.0, -9.0), mk(5.0, -5.0), mk(-1e9, 2.0), mk(5.0 + 1e-10, 0.0), mk(5.0 - 1e-10, -5.0 - 1e-12), mk(0.0, 5.0 + 1e-13)]
        }
        // (2.5 is the upper angular bound of the bounded SO(2) components of C13)
        Spec::So2 { .. } => vec![V::So2(0.3 + 2.0 * PI), V::So2(PI), V::So2(7.0), V::So2(-4.0 * PI + 2.4), V::So2(-3.0), V::So2(2.5 + 1e-10), V::So2(2.5 - 1e-10), V::So2(-1.0 - 1e-12)],
        Spec::So3 { .. } => {
            let r = quat_axis_angle([0.0, 0.0, 1.0], 40.0);
            let far = quat_axis_angle([1.0, 0.0, 0.0], 170.0);
            vec![
                V::So3([2.0 * r[0], 2.0 * r[1], 2.0 * r[2], 2.0 * r[3]]),
                V::So3([1e-3 * r[0], 1e-3 * r[1], 1e-3 * r[2], 1e-3 * r[3]]),
                V::So3(neg(r)),
                V::So3(far),
                V::So3([3.0 * far[0], 3.0 * far[1], 3.0 * far[2], 3.0 * far[3]]),
            ]
        }
        Spec::Cmp { parts, .. } => {
            let full = compound_wild_lattice(parts);
            let step = (full.len() / 5).max(1);
            full.into_iter().step_by(step).take(5).collect()
        }
        _ => unreachable!(),
    }
}

fn product(subs: &[Vec<V>]) -> Vec<V> {
    let mut out: Vec<Vec<V>> = vec![vec![]];
    for s in subs {
        let mut n = Vec::new();
        for pre in &out {
            for x in s {
                let mut p = pre.clone();
                p.push(x.clone());
                n.push(p);
            }
        }
        out = n;
    }
    out.into_iter().map(V::Cmp).collect()
}

/// Product lattice for enforce_bounds / satisfies_bounds on compounds (see `wild_sub_lattice`).
pub fn compound_wild_lattice(parts: &[Spec]) -> Vec<V> {
    product(&parts.iter().map(wild_sub_lattice).collect::<Vec<_>>())
}

pub fn compound_lattice(parts: &[Spec]) -> Vec<V> {
    let subs: Vec<Vec<V>> = parts.iter().map(sub_lattice).collect();
    let mut out: Vec<Vec<V>> = vec![vec![]];
    for s in &subs {
        let mut n = Vec::new();
        for pre in &out {
            for x in s {
                let mut p = pre.clone();
                p.push(x.clone());
                n.push(p);
            }
        }
        out = n;
    }
    out.into_iter().map(V::Cmp).collect()
}

fn comp_kinds() -> Vec<Spec> {
    vec![
        Spec::Rv { dim: 1, bounds: Some(vec![(-5.0, 5.0)]), frac: None },
        Spec::Rv { dim: 2, bounds: Some(vec![(-5.0, 5.0), (-5.0, 5.0)]), frac: None },
        Spec::So2 { bounds: None, frac: None },
        Spec::So3 { bounds: None, frac: None },
    ]
}

/// Compound layouts: 1..=max_parts components in any order, weights from `weights`^k
/// (quick: a covering subset; thorough: all).
pub fn compound_layouts(max_parts: usize, weights: &[f64], all_weights: bool) -> Vec<Spec> {
    let kinds = comp_kinds();
    let mut layouts: Vec<Vec<Spec>> = vec![];
    fn rec(kinds: &[Spec], k: usize, cur: &mut Vec<Spec>, out: &mut Vec<Vec<Spec>>) {
        if cur.len() == k {
            out.push(cur.clone());
            return;
        }
        for s in kinds {
            cur.push(s.clone());
            rec(kinds, k, cur, out);
            cur.pop();
        }
    }
    for k in 1..=max_parts {
        rec(&kinds, k, &mut vec![], &mut layouts);
    }
    let mut out = Vec::new();
    for (li, parts) in layouts.iter().enumerate() {
        let k = parts.len();
        let nw = weights.len();
        let total = nw.pow(k as u32);
        for wi in 0..total {
            // covering subset: a rotating diagonal plus the all-equal tuples
            if !all_weights {
                let digits: Vec<usize> = (0..k).map(|j| (wi / nw.pow(j as u32)) % nw).collect();
                let all_eq = digits.iter().all(|d| *d == digits[0]);
                let diag = digits.iter().enumerate().all(|(j, d)| *d == (digits[0] + j + li) % nw);
                if !(all_eq || diag) {
                    continue;
                }
            }
            let ws: Vec<f64> = (0..k).map(|j| weights[(wi / nw.pow(j as u32)) % nw]).collect();
            out.push(Spec::Cmp { parts: parts.clone(), weights: ws });
        }
    }
    out
}

//! Collecting counters, coverage, violations; writing evidence and replay files; known findings.

use serde_json::{json, Value};
use std::collections::{BTreeMap, HashSet};
use std::io::Write;
use std::time::Instant;

/// Root of the verification tree (evidence, replays, known findings, Python driver): $MC_ROOT, default /verif.
pub fn verif_root() -> String {
    std::env::var("MC_ROOT").ok().filter(|s| !s.is_empty()).unwrap_or_else(|| "/verif".to_string())
}

#[derive(Clone, Debug)]
pub struct Violation {
    /// finding key: property|component|failure class|input class
    pub key: String,
    pub what: String,
    pub replay: Value,
}

#[derive(Default)]
pub struct Report {
    pub counters: BTreeMap<String, u64>,
    pub viol_counts: BTreeMap<String, u64>,
    pub violations: Vec<Violation>,
    pub samples: Vec<Value>,
    /// 128-bit hashes of distinct states / cases
    pub distinct: HashSet<u128>,
    pub outcomes: HashSet<u128>,
    pub engine_errors: Vec<String>,
    pub notes: Vec<String>,
}

pub fn h128(words: &[u64]) -> u128 {
    // two independent FNV-style 64-bit mixes
    let mut a: u64 = 0xcbf29ce484222325;
    let mut b: u64 = 0x9e3779b97f4a7c15;
    for &w in words {
        a = (a ^ w).wrapping_mul(0x100000001b3);
        a ^= a >> 29;
        b = b.rotate_left(23) ^ w.wrapping_mul(0xff51afd7ed558ccd);
        b = b.wrapping_mul(0xc4ceb9fe1a85ec53);
        b ^= b >> 31;
    }
    ((a as u128) << 64) | b as u128
}

/// Process-wide record of the first violations per key, so that findings made by completed
/// explorations survive when the watchdog has to end the process (a planner call that never returns).
pub static GLOBAL_VIOLATIONS: std::sync::Mutex<Vec<Violation>> = std::sync::Mutex::new(Vec::new());

impl Report {
    pub fn new() -> Self {
        Default::default()
    }
    pub fn count(&mut self, k: &str, n: u64) {
        *self.counters.entry(k.to_string()).or_insert(0) += n;
    }
    pub fn get(&self, k: &str) -> u64 {
        self.counters.get(k).copied().unwrap_or(0)
    }
    pub fn max(&mut self, k: &str, n: u64) {
        let e = self.counters.entry(k.to_string()).or_insert(0);
        if n > *e {
            *e = n;
        }
    }
    pub fn violate(&mut self, key: String, what: String, replay: impl FnOnce() -> Value) {
        let c = self.viol_counts.entry(key.clone()).or_insert(0);
        *c += 1;
        if *c <= 2 {
            let v = Violation { key, what, replay: replay() };
            if let Ok(mut g) = GLOBAL_VIOLATIONS.lock() {
                if g.len() < 64 && !g.iter().any(|x| x.key == v.key) {
                    g.push(v.clone());
                }
            }
            self.violations.push(v);
        }
    }
    pub fn sample(&mut self, v: impl FnOnce() -> Value) {
        if self.samples.len() < 6 {
            self.samples.push(v());
        }
    }
    pub fn engine_error(&mut self, s: String) {
        if self.engine_errors.len() < 20 {
            self.engine_errors.push(s);
        }
    }
    pub fn merge(&mut self, o: Report) {
        for (k, v) in o.counters {
            if k.starts_with("max_") {
                self.max(&k, v);
            } else {
                *self.counters.entry(k).or_insert(0) += v;
            }
        }
        for (k, v) in o.viol_counts {
            *self.viol_counts.entry(k).or_insert(0) += v;
        }
        for v in o.violations {
            let have = self.violations.iter().filter(|x| x.key == v.key).count();
            if have < 2 {
                self.violations.push(v);
            }
        }
        for s in o.samples {
            if self.samples.len() < 8 {
                self.samples.push(s);
            }
        }
        self.distinct.extend(o.distinct);
        self.outcomes.extend(o.outcomes);
        self.engine_errors.extend(o.engine_errors);
        self.notes.extend(o.notes);
    }
}

#[derive(Clone, Debug)]
pub struct KnownFinding {
    pub property: String,
    pub key: String,
    pub status: String,
    pub what: String,
}

pub fn load_known() -> Vec<KnownFinding> {
    let p = format!("{}/known_findings.json", crate::report::verif_root());
    let Ok(s) = std::fs::read_to_string(&p) else { return vec![] };
    let v: Value = serde_json::from_str(&s).expect("known_findings.json must parse");
    v["findings"]
        .as_array()
        .map(|a| {
            a.iter()
                .map(|f| KnownFinding {
                    property: f["property"].as_str().unwrap_or("").to_string(),
                    key: f["key"].as_str().unwrap_or("").to_string(),
                    status: f["status"].as_str().unwrap_or("").to_string(),
                    what: f["what"].as_str().unwrap_or("").to_string(),
                })
                .collect()
        })
        .unwrap_or_default()
}

pub struct CheckMeta<'a> {
    pub prop: &'a str,
    pub tier: &'a str,
    pub level: &'a str,
    pub rule: &'a str,
    pub exhaustive: bool,
    pub bounds: Value,
    pub assumptions: Vec<String>,
    /// counters that must be positive on the unchanged tree (non-vacuity)
    pub must_be_positive: Vec<&'a str>,
}

static OUT_FD: std::sync::atomic::AtomicI32 = std::sync::atomic::AtomicI32::new(1);

/// Move the check's own stdout to a private descriptor and point fd 1 at /dev/null, because the
/// planners println! on success.
pub fn hush_stdout() {
    unsafe {
        let keep = libc::dup(1);
        let null = libc::open(b"/dev/null\0".as_ptr() as *const libc::c_char, libc::O_WRONLY);
        if keep >= 0 && null >= 0 {
            libc::dup2(null, 1);
            libc::close(null);
            OUT_FD.store(keep, std::sync::atomic::Ordering::SeqCst);
        }
    }
}
pub fn out(s: &str) {
    let fd = OUT_FD.load(std::sync::atomic::Ordering::SeqCst);
    let line = format!("{s}\n");
    unsafe {
        let mut off = 0;
        let b = line.as_bytes();
        while off < b.len() {
            let n = libc::write(fd, b[off..].as_ptr() as *const libc::c_void, b.len() - off);
            if n <= 0 {
                break;
            }
            off += n as usize;
        }
    }
    let _ = std::io::stderr().flush();
}

fn seed() -> i64 {
    std::env::var("VERIF_SEED").ok().and_then(|s| s.parse::<i64>().ok()).unwrap_or(0)
}

/// Writes evidence, prints verdict lines, returns the process exit code.
pub fn finish(meta: &CheckMeta, mut rep: Report, t0: Instant) -> i32 {
    let known = load_known();
    let mut unknown: Vec<&Violation> = Vec::new();
    let mut known_hit: BTreeMap<String, (String, u64)> = BTreeMap::new();
    for (key, n) in &rep.viol_counts {
        if let Some(k) = known.iter().find(|k| k.status == "known" && k.property == meta.prop && key_matches(&k.key, key)) {
            let e = known_hit.entry(k.key.clone()).or_insert((k.what.clone(), 0));
            e.1 += n;
        }
    }
    for v in &rep.violations {
        if !known.iter().any(|k| k.status == "known" && k.property == meta.prop && key_matches(&k.key, &v.key)) {
            unknown.push(v);
        }
    }
    // non-vacuity: only an engine error when nothing else was found — a tree that violates the
    // property may well starve a counter, and the violation is the verdict then
    if unknown.is_empty() {
        for k in &meta.must_be_positive {
            if rep.get(k) == 0 {
                rep.engine_errors.push(format!("non-vacuity counter `{k}` is zero"));
            }
        }
    }
    let wall = t0.elapsed().as_secs_f64();
    let states = rep.distinct.len() as u64;
    let n_viol: u64 = rep
        .viol_counts
        .iter()
        .filter(|(k, _)| !known.iter().any(|kf| kf.status == "known" && kf.property == meta.prop && key_matches(&kf.key, k)))
        .map(|(_, n)| *n)
        .sum();
    let mut coverage = json!({
        "states": states.max(rep.get("states")),
        "transitions": rep.get("transitions"),
        "traces_validated_against_impl": rep.get("traces_validated"),
        "evaluations": rep.get("evaluations"),
        "distinct_nontrivial": states.max(rep.get("distinct_nontrivial")),
        "distinct_outcomes": rep.outcomes.len(),
        "rule": meta.rule,
        "samples": rep.samples,
        "exhaustive": meta.exhaustive && rep.get("cap_hit") == 0,
        "bounds": meta.bounds,
        "counters": rep.counters,
        "known_findings_hit": known_hit.iter().map(|(k, (w, n))| json!({"key": k, "what": w, "occurrences": n})).collect::<Vec<_>>(),
        "violation_keys": rep.viol_counts,
        "notes": rep.notes,
    });
    if rep.samples.is_empty() {
        coverage["samples"] = json!(["(no sample recorded)"]);
    }
    let ev = json!({
        "property_id": meta.prop,
        "tier": meta.tier,
        "seed": seed(),
        "level": meta.level,
        "coverage": coverage,
        "assumptions": meta.assumptions,
        "wall_s": wall,
        "violations": n_viol,
        "engine_errors": rep.engine_errors,
    });
    let _ = std::fs::create_dir_all(format!("{}/evidence", crate::report::verif_root()));
    let path = format!("{}/evidence/{}.json", verif_root(), meta.prop);
    std::fs::write(&path, serde_json::to_string_pretty(&ev).unwrap()).expect("write evidence");

    out(&format!(
        "{} [{}] states={} transitions={} evaluations={} traces_validated={} outcomes={} wall={:.1}s",
        meta.prop,
        meta.tier,
        ev["coverage"]["states"],
        ev["coverage"]["transitions"],
        ev["coverage"]["evaluations"],
        ev["coverage"]["traces_validated_against_impl"],
        rep.outcomes.len(),
        wall
    ));
    for (k, v) in &rep.counters {
        out(&format!("  {k} = {v}"));
    }
    for (k, (what, n)) in &known_hit {
        out(&format!("KNOWN-FINDING: property={} {} [{}; {} occurrence(s)]", meta.prop, what, k, n));
    }
    if !rep.engine_errors.is_empty() {
        for e in &rep.engine_errors {
            out(&format!("ENGINE-ERROR: {e}"));
        }
        // an engine error is never a verdict
        return 2;
    }
    if unknown.is_empty() {
        return 0;
    }
    let dir = format!("{}/replays/{}", verif_root(), meta.prop);
    let _ = std::fs::create_dir_all(&dir);
    let mut seen = HashSet::new();
    for v in unknown {
        if !seen.insert(v.key.clone()) {
            continue;
        }
        let body = json!({"property": meta.prop, "key": v.key, "what": v.what, "replay": v.replay});
        let text = serde_json::to_string_pretty(&body).unwrap();
        let d = h128(&text.bytes().map(|b| b as u64).collect::<Vec<_>>());
        let file = format!("{dir}/{:016x}.json", (d >> 64) as u64);
        std::fs::write(&file, text).expect("write replay");
        out(&format!("  what: {}", v.what));
        out(&format!("  key: {} (x{})", v.key, rep.viol_counts.get(&v.key).copied().unwrap_or(0)));
        out(&format!("VIOLATION property={} replay={}", meta.prop, file));
    }
    1
}

/// Called by the watchdog when a planner call does not return (or the process balloons): writes
/// evidence and replay files for what is known and ends the process. `hang` = (key, what, replay)
/// when the non-returning call is itself a violation of the property being checked.
pub fn emergency_finish(prop: &str, tier: &str, reason: &str, hang: Option<(String, String, Value)>) -> ! {
    let known = load_known();
    let mut vs: Vec<Violation> = GLOBAL_VIOLATIONS.lock().map(|g| g.clone()).unwrap_or_default();
    if let Some((key, what, replay)) = hang {
        vs.push(Violation { key, what, replay });
    }
    vs.retain(|v| !known.iter().any(|k| k.status == "known" && k.property == prop && key_matches(&k.key, &v.key)));
    let ev = json!({
        "property_id": prop, "tier": tier, "seed": seed(), "level": "model_checking",
        "coverage": {"states": 0, "transitions": 0, "traces_validated_against_impl": 0, "evaluations": 0, "distinct_nontrivial": 0, "distinct_outcomes": 0,
            "rule": "run ended by the watchdog before the exploration completed", "samples": ["(run ended early)"], "exhaustive": false, "bounds": {}, "counters": {},
            "known_findings_hit": [], "violation_keys": vs.iter().map(|v| (v.key.clone(), 1)).collect::<BTreeMap<String, u64>>(), "notes": [reason]},
        "assumptions": [], "wall_s": 0.0, "violations": vs.len(), "engine_errors": if vs.is_empty() { vec![reason.to_string()] } else { vec![] },
    });
    let _ = std::fs::create_dir_all(format!("{}/evidence", verif_root()));
    let _ = std::fs::write(format!("{}/evidence/{prop}.json", verif_root()), serde_json::to_string_pretty(&ev).unwrap());
    if vs.is_empty() {
        out(&format!("ENGINE-ERROR: {reason}"));
        std::process::exit(2);
    }
    let dir = format!("{}/replays/{prop}", verif_root());
    let _ = std::fs::create_dir_all(&dir);
    out(&format!("{prop} [{tier}] run ended early: {reason}"));
    for v in &vs {
        let body = json!({"property": prop, "key": v.key, "what": v.what, "replay": v.replay});
        let text = serde_json::to_string_pretty(&body).unwrap();
        let d = h128(&text.bytes().map(|b| b as u64).collect::<Vec<_>>());
        let file = format!("{dir}/{:016x}.json", (d >> 64) as u64);
        let _ = std::fs::write(&file, text);
        out(&format!("  what: {}", v.what));
        out(&format!("  key: {}", v.key));
        out(&format!("VIOLATION property={prop} replay={file}"));
    }
    std::process::exit(1);
}

/// A known-finding key matches exactly, or as a prefix when it ends with '*'.
pub fn key_matches(known: &str, key: &str) -> bool {
    if let Some(p) = known.strip_suffix('*') {
        key.starts_with(p)
    } else {
        known == key
    }
}

fn main() {
    // Export our own `getrandom` so that getrandom 0.3's dlsym(RTLD_DEFAULT, "getrandom") and std's
    // RandomState resolve to the harness's entropy seam (see src/entropy.rs).
    println!("cargo:rustc-link-arg-bins=-Wl,--export-dynamic-symbol=getrandom");
}

#!/bin/sh
# Builds the harness offline from files on disk. Run from anywhere; works in a copy of /verif too.
set -e
ROOT=$(cd "$(dirname "$0")" && pwd)
cd "$ROOT"
export CARGO_NET_OFFLINE=true
mkdir -p "$ROOT/target"
( cd mc && CARGO_TARGET_DIR="$ROOT/target/mc" cargo build --release --offline 2>&1 | tail -3 )
# Python extension used by C19 / C20 (rebuilt by ./check whenever /repo changes)
( cd /repo && CARGO_TARGET_DIR="$ROOT/target/py" cargo build -p oxmpl-py --features oxmpl/verif --release --offline 2>&1 | tail -2 )
mkdir -p "$ROOT/target/py/site" && cp "$ROOT/target/py/release/liboxmpl_py.so" "$ROOT/target/py/site/oxmpl_py.so"

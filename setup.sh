#!/bin/sh
# Builds the harness offline from files on disk. Run in /verif.
set -e
cd "$(dirname "$0")"
export CARGO_NET_OFFLINE=true
cd mc && cargo build --release --offline 2>&1 | tail -3

#!/bin/sh
# Builds the harness offline from files on disk. Run in /verif.
set -e
cd "$(dirname "$0")"
export CARGO_NET_OFFLINE=true
cd mc && cargo build --release --offline 2>&1 | tail -3
# Python extension used by C19 / C20 (rebuilt by ./check whenever /repo changes)
( cd /repo && CARGO_TARGET_DIR=/verif/target/py cargo build -p oxmpl-py --features oxmpl/verif --release --offline 2>&1 | tail -2 )
mkdir -p /verif/target/py/site && cp /verif/target/py/release/liboxmpl_py.so /verif/target/py/site/oxmpl_py.so

#!/usr/bin/env python3
"""Python side of C19 / C20 (see /verif/mc/src/props_py.rs).

usage: driver.py c19|c20 <input.json> <output.json>
Runs the scenario lattice through the oxmpl_py extension (built from /repo with the logical
clock) and writes a report {counters, violations, samples, distinct, engine_errors}.
Callbacks use order-fixed IEEE arithmetic identical to the Rust mirror.
"""
import json
import math
import operator
import os
import struct
import sys

# the binding prints Python tracebacks of failing callbacks to stderr: keep our own channel clean
_real_stderr = os.dup(2)
_devnull = os.open(os.devnull, os.O_WRONLY)
os.dup2(_devnull, 2)
os.dup2(_devnull, 1)

import oxmpl_py  # noqa: E402
from oxmpl_py.base import (  # noqa: E402
    CompoundState, CompoundStateSpace, PlannerConfig, ProblemDefinition, RealVectorState,
    RealVectorStateSpace, SE2State, SE2StateSpace, SE3State, SE3StateSpace, SO2State,
    SO2StateSpace, SO3State, SO3StateSpace,
)
from oxmpl_py.geometric import PRM, RRT, RRTConnect, RRTStar  # noqa: E402

MASK = (1 << 64) - 1


def bits(x):
    return struct.unpack("<Q", struct.pack("<d", x))[0]


def unbits(b):
    return struct.unpack("<d", struct.pack("<Q", b))[0]


def flatten(s, out):
    if isinstance(s, RealVectorState):
        out.extend(s.values)
    elif isinstance(s, SO2State):
        out.append(s.value)
    elif isinstance(s, SO3State):
        out.extend([s.x, s.y, s.z, s.w])
    elif isinstance(s, CompoundState):
        for c in s.components:
            flatten(c, out)
    elif isinstance(s, SE2State):
        out.extend([s.x, s.y, s.yaw])
    elif isinstance(s, SE3State):
        r = s.rotation
        out.extend([s.x, s.y, s.z, r.x, r.y, r.z, r.w])
    else:
        raise TypeError("unknown state type %r" % (s,))
    return out


def ev(p, x):
    k = p["k"]
    if k == "sq":
        s = 0.0
        for i, c in zip(p["idx"], p["c"]):
            d = x[i] - c
            s = s + d * d
        return s <= p["r2"]
    if k == "dot":
        s = 0.0
        for i, q in zip(p["idx"], p["q"]):
            s = s + x[i] * q
        return abs(s) >= p["c"]
    if k == "range":
        return p["lo"] <= x[p["i"]] <= p["hi"]
    raise ValueError(k)


def mk_state(variant, v):
    if "rv" in v:
        return RealVectorState(list(v["rv"]))
    if "so2" in v:
        return SO2State(v["so2"])
    if "so3" in v:
        q = v["so3"]
        return SO3State(q[0], q[1], q[2], q[3])
    if "cmp" in v:
        c = v["cmp"]
        if variant == "SE2":
            return SE2State(c[0]["rv"][0], c[0]["rv"][1], c[1]["so2"])
        if variant == "SE3":
            q = c[1]["so3"]
            return SE3State(c[0]["rv"][0], c[0]["rv"][1], c[0]["rv"][2], SO3State(q[0], q[1], q[2], q[3]))
        return CompoundState([mk_state(variant, x) for x in c])
    raise ValueError(v)


def mk_space(sp, defer_frac=False):
    kind = sp["kind"]
    if kind == "rv":
        b = sp["bounds"]
        s = RealVectorStateSpace(sp["dim"], [tuple(x) for x in b] if b is not None else None)
    elif kind == "so2":
        b = sp["bounds"]
        s = SO2StateSpace(tuple(b) if b is not None else None)
    elif kind == "so3":
        b = sp["bounds"]
        if b is None:
            s = SO3StateSpace(None)
        else:
            c = b["centre"]
            s = SO3StateSpace((SO3State(c[0], c[1], c[2], c[3]), b["radius"]))
    elif kind == "cmp":
        return CompoundStateSpace([mk_space(p) for p in sp["parts"]], list(sp["weights"]))
    elif kind == "se2":
        b = sp["bounds"]
        return SE2StateSpace(sp["weight"], [tuple(x) for x in b] if b is not None else None)
    elif kind == "se3":
        b = sp["bounds"]
        return SE3StateSpace(sp["weight"], [tuple(x) for x in b] if b is not None else None)
    else:
        raise ValueError(kind)
    if sp.get("frac") is not None and not defer_frac:
        s.set_longest_valid_segment_fraction(sp["frac"])
    return s


FROM = {
    "RealVector": ProblemDefinition.from_real_vector,
    "SO2": ProblemDefinition.from_so2,
    "SO3": ProblemDefinition.from_so3,
    "Compound": ProblemDefinition.from_compound,
    "SE2": ProblemDefinition.from_se2,
    "SE3": ProblemDefinition.from_se3,
}


class Fault(Exception):
    pass


class TransientFault(TimeoutError):
    """an OSError subclass: what a collision checker talking to a simulator raises on a hiccup"""


class Interrupt(BaseException):
    """not an Exception: what `except Exception` in user code would let through (cf. KeyboardInterrupt)"""


class Env:
    """Callbacks of one run. `fault` = None or dict(target, kind, place, k / region)."""

    def __init__(self, sc, fault=None, as_false=False):
        self.sc = sc
        self.fault = fault
        self.as_false = as_false  # reference run: return False where the fault would strike
        self.valid_calls = 0
        self.valid_hash = 0xCBF29CE484222325
        self.pred_calls = 0
        self.sample_calls = 0
        self.second = False
        self.struck = []  # flattened states on which the fault struck
        self.struck_now = set()  # ... and that no later unfaulted call has accepted since
        self.samples = [mk_state(sc["variant"], v) for v in sc["goal"]["samples"]]

    def _strike(self, target, idx, x):
        f = self.fault
        if f is None or f["target"] != target:
            return False
        if f["place"] == "kth":
            return idx == f["k"]
        return ev(f["region"], x)

    def _misbehave(self):
        kind = self.fault["kind"]
        if kind == "raise":
            raise Fault("injected")
        if kind == "oserror":
            raise TransientFault("injected transient failure")
        if kind == "baseexc":
            raise Interrupt("injected BaseException")
        if kind == "kbd":
            raise KeyboardInterrupt()
        if kind == "sysexit":
            raise SystemExit(7)
        if kind == "none":
            return None
        if kind == "int":
            return 1
        return "x"

    def valid(self, s):
        x = flatten(s, [])
        idx = self.valid_calls
        self.valid_calls += 1
        h = self.valid_hash
        for c in x:
            for b in struct.pack("<d", c):
                h ^= b
                h = (h * 0x100000001B3) & MASK
        self.valid_hash = h
        key = tuple(bits(c) for c in x)
        if self._strike("valid", idx, x):
            self.struck.append(key)
            self.struck_now.add(key)
            if self.as_false:
                return False
            return self._misbehave()
        ok = not any(ev(p, x) for p in (self.sc["obstacles2"] if self.second else self.sc["obstacles"]))
        if ok:
            # a later, unfaulted query accepted this state: it may legitimately appear on a path
            self.struck_now.discard(key)
        return ok

    def valid2(self, s):
        """the second validity callback of a history (re-setup); same trace, other obstacles"""
        self.second = True
        try:
            return self.valid(s)
        finally:
            self.second = False

    # goal object protocol
    def is_satisfied(self, s):
        x = flatten(s, [])
        idx = self.pred_calls
        self.pred_calls += 1
        key = tuple(bits(c) for c in x)
        if self._strike("goal", idx, x):
            self.struck.append(key)
            self.struck_now.add(key)
            if self.as_false:
                return False
            return self._misbehave()
        ok = all(ev(p, x) for p in self.sc["goal"]["preds"])
        if ok:
            self.struck_now.discard(key)
        return ok

    def sample_goal(self):
        k = self.sample_calls
        self.sample_calls += 1
        return self.samples[k % len(self.samples)]


class EnvD(Env):
    """A goal object that also implements the documented optional distance_goal (0 inside the region)."""

    def distance_goal(self, s):
        x = flatten(s, [])
        return 0.0 if all(ev(p, x) for p in self.sc["goal"]["preds"]) else 1.0



# Callables that fail WITHOUT any Python frame of user code on the way (the exception has no traceback):
# a call with the wrong number of arguments, a C-implemented callable that raises on a state object.
WHOLE_KINDS = ["arity0", "arity2", "c-itemgetter", "c-sqrt"]


def frameless(kind):
    if kind == "arity0":
        return lambda: True
    if kind == "arity2":
        return lambda a, b: True
    if kind == "c-itemgetter":
        return operator.itemgetter(99)
    return math.sqrt


def goal_whose_sampler_exits(env):
    class G:
        def is_satisfied(self, s):
            return env.is_satisfied(s)

        def sample_goal(self):
            raise SystemExit(7)

    return G()


def goal_without_frames(env, kind):
    cb = frameless(kind)

    class G:
        # a plain function stored on the class would be bound (one argument too many for arity2 = fine, that
        # also fails); C callables and staticmethods are called with the state alone
        is_satisfied = staticmethod(cb)

        def sample_goal(self):
            return env.sample_goal()

    return G()


def run_scenario(sc, fault=None, as_false=False, with_distance=False, whole=None):
    env = (EnvD if with_distance else Env)(sc, fault, as_false)
    late = "/frac-late" in sc["id"]
    space = mk_space(sc["space"], defer_frac=late)
    start = mk_state(sc["variant"], sc["start"])
    if late:
        # the same space object served an earlier problem definition before its resolution was changed
        FROM[sc["variant"]](space, start, env)
        space.set_longest_valid_segment_fraction(sc["space"]["frac"])
    goal_obj = goal_without_frames(env, whole[1]) if whole and whole[0] == "goal" else env
    if whole and whole[0] == "sample":
        goal_obj = goal_whose_sampler_exits(env)
    valid_cb = frameless(whole[1]) if whole and whole[0] == "valid" else None
    pd = FROM[sc["variant"]](space, start, goal_obj)
    cfg = PlannerConfig(seed=sc["seed"])
    pl = sc["planner"]
    try:
        if pl == "RRT":
            p = RRT(sc["step"], sc["bias"], pd, cfg)
        elif pl == "RRTStar":
            p = RRTStar(sc["step"], sc["bias"], sc["radius"], pd, cfg)
        elif pl == "RRTConnect":
            p = RRTConnect(sc["step"], sc["bias"], pd, cfg)
        else:
            p = PRM(sc["prm_timeout"], sc["step"], pd, cfg)
    except (Fault, TransientFault, Interrupt, KeyboardInterrupt, SystemExit):
        raise
    except Exception as e:  # noqa: BLE001
        return env, [(str(e), [], [])], space
    calls = []
    for op in sc.get("history") or (["setup", "construct", "solve"] if pl == "PRM" else ["setup", "solve"]):
        try:
            if op == "setup":
                p.setup(valid_cb or env.valid)
            elif op == "setup2":
                p.setup(valid_cb or env.valid2)
            elif op == "construct":
                if pl == "PRM":
                    p.construct_roadmap()
            elif op == "solve":
                path = p.solve(sc["timeout_secs"])
                states = path.states
                calls.append(("ok", [[bits(c) for c in flatten(s, [])] for s in states], states))
            else:
                raise ValueError(op)
        except (Fault, TransientFault, Interrupt, KeyboardInterrupt, SystemExit):
            raise
        except Exception as e:  # planning errors arrive as plain Exception(text)
            calls.append((str(e), [], []))
            if op == "construct":
                break
    return env, calls, space


class Report:
    def __init__(self):
        self.counters = {}
        self.viol = {}
        self.samples = []
        self.distinct = set()
        self.errors = []

    def count(self, k, n=1):
        self.counters[k] = self.counters.get(k, 0) + n

    def violate(self, key, what, detail):
        v = self.viol.get(key)
        if v is None:
            self.viol[key] = {"key": key, "what": what, "detail": detail, "count": 1}
        else:
            v["count"] += 1

    def dump(self, path):
        json.dump({"counters": self.counters, "violations": list(self.viol.values()), "samples": self.samples[:6],
                   "distinct": [d & MASK for d in list(self.distinct)[:200000]], "engine_errors": self.errors}, open(path, "w"))


def c19(inp, rep):
    for sc in inp["scenarios"]:
        exp = sc["expected"]
        try:
            env, calls, space = run_scenario(sc)
        except Exception as e:  # noqa: BLE001
            rep.errors.append("scenario %s could not run in Python: %r" % (sc["id"], e))
            continue
        rep.count("scenarios_compared")
        rep.distinct.add(hash(sc["id"]))
        pl = sc["planner"]
        hist = sc.get("history")
        if hist and hist.count("solve") + hist.count("setup") + hist.count("setup2") > 2:
            rep.count("multi_call_histories_compared")
        det = {"scenario": {k: sc.get(k) for k in ("id", "variant", "planner", "seed", "step", "bias", "radius", "timeout_secs", "history")},
               "python": {"results": [c[0] for c in calls], "path_lens": [len(c[1]) for c in calls], "valid_calls": env.valid_calls},
               "core": {"results": [c["result"] for c in exp["calls"]], "path_lens": [len(c["path_bits"]) for c in exp["calls"]], "valid_calls": exp["valid_calls"]}}
        if len(calls) != len(exp["calls"]):
            rep.violate("%s|outcome-differs" % pl, "Python made %d reportable calls, the Rust core %d" % (len(calls), len(exp["calls"])), det)
            continue
        bad = False
        for ci, ((result, pbits, states), ec) in enumerate(zip(calls, exp["calls"])):
            which = "" if ci == 0 else "|call%d" % ci
            if (result == "ok") != (ec["result"] == "ok") or (result != "ok" and result != ec["result"]):
                rep.violate("%s|outcome-differs%s" % (pl, which), "call %d: Python returned %r, the Rust core %r" % (ci, result, ec["result"]), det)
                bad = True
                break
            if result == "ok":
                rep.count("python_paths")
                if len(pbits) >= 2 and pbits[-1] == pbits[-2]:
                    rep.count("paths_with_repeated_final_state")
            if pl != "PRM":
                if pbits != ec["path_bits"]:
                    rep.violate("%s|path-differs%s" % (pl, which), "call %d: the Python path differs from the Rust core's path (same seed, parameters, callbacks and call history)" % ci, det)
                    bad = True
                    break
                if result == "ok":
                    rep.count("paths_compared_bitwise")
            if pl == "PRM" and result == "ok":
                # soundness against the Python callbacks that were installed when this call was made
                obst = sc["obstacles"]
                if hist:
                    seen_solves = -1
                    for op in hist:
                        if op == "setup":
                            obst = sc["obstacles"]
                        elif op == "setup2":
                            obst = sc["obstacles2"]
                        elif op == "solve":
                            seen_solves += 1
                            if seen_solves == ci:
                                break
                xs = [flatten(s, []) for s in states]
                why = None
                if not xs or [bits(c) for c in xs[0]] != [bits(c) for c in flatten(mk_state(sc["variant"], sc["start"]), [])]:
                    why = "does-not-start-at-start"
                elif not all(ev(p, xs[-1]) for p in sc["goal"]["preds"]):
                    why = "does-not-end-in-goal"
                elif any(any(ev(p, x) for p in obst) for x in xs):
                    why = "invalid-state-on-path"
                else:
                    for a, b in zip(states, states[1:]):
                        if not (space.distance(a, b) <= sc["step"] * (1 + 1e-9) + 1e-5):
                            why = "edge-longer-than-radius"
                rep.count("prm_paths_checked_sound")
                if why:
                    rep.violate("PRM|unsound-path:%s%s" % (why, which), "Python PRM path is unsound w.r.t. the Python callbacks: %s" % why, det)
                    bad = True
                    break
                if pbits != ec["path_bits"]:
                    rep.count("prm_paths_differing_from_core")  # information only (the property asks for soundness)
        if bad:
            continue
        # trace conformance: the sequence of states shown to the validity callback(s) over the whole history
        rep.count("validity_calls_compared", env.valid_calls)
        # (information, not a verdict: the statement is about what is RETURNED; a binding that asks the
        # callbacks one more or one less question and still returns the core's answer keeps the property)
        if env.valid_calls != exp["valid_calls"] or env.valid_hash != exp["valid_hash"]:
            rep.count("validity_trace_mismatches")
        else:
            rep.count("validity_traces_identical")
        if env.pred_calls != exp["goal_pred_calls"] or env.sample_calls != exp["goal_sample_calls"]:
            rep.count("goal_call_count_mismatches")
        if len(rep.samples) < 6:
            rep.samples.append({"scenario": sc["id"], "results": [c[0] for c in calls], "path_states": [len(c[1]) for c in calls], "validity_calls": env.valid_calls, "validity_trace_hash": "%016x" % env.valid_hash})
    wrappers(inp["wrappers"], rep)


def fl(b):
    return unbits(b)


def mk_state_bits(variant, v):
    """like mk_state, every number given as its IEEE bit pattern"""
    if "rv" in v:
        return RealVectorState([unbits(x) for x in v["rv"]])
    if "so2" in v:
        return SO2State(unbits(v["so2"]))
    if "so3" in v:
        q = [unbits(x) for x in v["so3"]]
        return SO3State(q[0], q[1], q[2], q[3])
    c = v["cmp"]
    if variant == "SE2":
        xy = [unbits(x) for x in c[0]["rv"]]
        return SE2State(xy[0], xy[1], unbits(c[1]["so2"]))
    if variant == "SE3":
        p = [unbits(x) for x in c[0]["rv"]]
        q = [unbits(x) for x in c[1]["so3"]]
        return SE3State(p[0], p[1], p[2], SO3State(q[0], q[1], q[2], q[3]))
    return CompoundState([mk_state_bits(variant, x) for x in c])


def wrappers(cases, rep):
    for c in cases:
        rep.count("wrapper_cases")
        ctor = c["ctor"]
        det = {"case": c}
        if ctor == "space-distances":
            det = {"case": {"space": c["space"], "variant": c["variant"]}}
            try:
                sp = mk_space(c["space"])
            except Exception as e:  # noqa: BLE001
                rep.violate("wrapper|%s|unexpected-exception" % c["variant"], "space constructor raised %s" % type(e).__name__, det)
                continue
            for pr in c["pairs"]:
                a = mk_state_bits(c["variant"], pr["a"])
                b = mk_state_bits(c["variant"], pr["b"])
                rep.count("wrapper_distances_compared")
                if bits(sp.distance(a, b)) != pr["dist"]:
                    rep.violate("wrapper|%s|distance-differs" % c["variant"], "distance differs from the core on the pair lattice", dict(det, pair=pr))
                    break
            rep.distinct.add(hash(json.dumps(c["space"], sort_keys=True) + c["variant"]))
            continue
        try:
            if ctor == "RealVectorStateSpace":
                b = c["bounds"]
                obj = RealVectorStateSpace(c["dim"], [(fl(l), fl(u)) for l, u in b] if b is not None else None)
            elif ctor == "SO2StateSpace":
                b = c["bounds"]
                obj = SO2StateSpace((fl(b[0]), fl(b[1])) if b is not None else None)
            elif ctor == "SE2StateSpace":
                obj = SE2StateSpace(fl(c["weight"]), [(fl(l), fl(u)) for l, u in c["bounds"]])
            elif ctor == "SE3StateSpace":
                obj = SE3StateSpace(fl(c["weight"]), [(fl(l), fl(u)) for l, u in c["bounds"]])
            elif ctor == "SO3StateSpace":
                q = [fl(x) for x in c["centre"]]
                obj = SO3StateSpace((SO3State(q[0], q[1], q[2], q[3]), fl(c["radius"])))
            elif ctor == "SO2State":
                got = SO2State(fl(c["value"])).value
                rep.distinct.add(hash(("SO2State", c["value"])))
                if bits(got) != c["stored"]:
                    rep.violate("wrapper|SO2State|canonical-value-differs", "SO2State(x).value differs from the core", det)
                continue
            elif ctor == "SE2State":
                got = SE2State(fl(c["x"]), fl(c["y"]), fl(c["yaw"])).yaw
                rep.distinct.add(hash(("SE2State", c["yaw"])))
                if bits(got) != c["stored"]:
                    rep.violate("wrapper|SE2State|canonical-value-differs", "SE2State(x,y,yaw).yaw differs from the core", det)
                continue
            else:
                rep.errors.append("unknown wrapper ctor %s" % ctor)
                continue
            ok = True
        except ValueError:
            ok = False
        except Exception as e:  # noqa: BLE001
            rep.violate("wrapper|%s|unexpected-exception" % ctor, "constructor raised %s instead of ValueError" % type(e).__name__, det)
            continue
        rep.distinct.add(hash(json.dumps(c, sort_keys=True)))
        if not c["ok"]:
            rep.count("wrapper_errors_expected")
        if ok != c["ok"]:
            rep.violate("wrapper|%s|error-mismatch" % ctor, "Python %s, core %s" % ("constructed" if ok else "raised ValueError", "Ok" if c["ok"] else "Err"), det)
            continue
        if not ok:
            continue
        if c.get("extent") is not None and hasattr(obj, "get_maximum_extent"):
            if bits(obj.get_maximum_extent()) != c["extent"]:
                rep.violate("wrapper|%s|extent-differs" % ctor, "get_maximum_extent differs from the core", det)
        if c.get("dist") is not None:
            if ctor == "RealVectorStateSpace":
                d = obj.distance(RealVectorState([fl(x) for x in c["p"]]), RealVectorState([fl(x) for x in c["q"]]))
            elif ctor == "SO2StateSpace":
                d = obj.distance(SO2State(fl(c["a"])), SO2State(fl(c["b"])))
            elif ctor == "SE2StateSpace":
                d = obj.distance(SE2State(0.5, 0.5, 3.0), SE2State(0.25, 1.0, -3.0))
            elif ctor == "SO3StateSpace":
                q = [fl(x) for x in c["q"]]
                d = obj.distance(SO3State.identity(), SO3State(q[0], q[1], q[2], q[3]))
            else:
                d = None
            if d is not None:
                rep.count("wrapper_distances_compared")
                if bits(d) != c["dist"]:
                    rep.violate("wrapper|%s|distance-differs" % ctor, "distance differs from the core", det)


def c20(inp, rep):
    kmax = inp["k_max"]
    kinds = ["raise", "none", "int", "str", "oserror", "baseexc", "kbd", "sysexit"]
    for sc in inp["scenarios"]:
        # fault region: the first obstacle predicate's neighbourhood if any, else around the goal
        region = (sc["obstacles"] or sc["goal"]["preds"])[0]
        placements = [("valid", {"place": "region", "region": sc["goal"]["preds"][0]}), ("goal", {"place": "region", "region": sc["goal"]["preds"][0]})]
        if sc["obstacles"]:
            placements.append(("valid", {"place": "region", "region": widen(region)}))
        # the validity callback fails on the start state itself (every solve re-validates it)
        x0 = flatten(mk_state(sc["variant"], sc["start"]), [])
        placements.append(("valid", {"place": "region", "region": {"k": "sq", "idx": list(range(len(x0))), "c": x0, "r2": 1e-18}}))
        # quick tier: multi-call histories and goals with distance_goal get the region faults and k < 3 only
        light = inp.get("tier") == "quick"
        is_hist = "/h-" in sc["id"]
        for k in range(3 if (light and is_hist) else kmax):
            placements.append(("valid", {"place": "kth", "k": k}))
            placements.append(("goal", {"place": "kth", "k": k}))
        # callbacks that fail on EVERY call and without a Python frame (wrong arity, C callables): the reference is
        # a callback returning False everywhere
        everywhere = {"k": "sq", "idx": list(range(len(x0))), "c": x0, "r2": 1e300}
        for target in ("valid", "goal"):
            try:
                _, ref_calls, _ = run_scenario(sc, dict(place="region", region=everywhere, target=target, kind="raise"), as_false=True)
            except Exception as e:  # noqa: BLE001
                rep.errors.append("reference run (False everywhere) failed for %s: %r" % (sc["id"], e))
                continue
            for kind in WHOLE_KINDS:
                rep.count("fault_runs")
                rep.count("frameless_callback_runs")
                det = {"scenario": {k: sc[k] for k in ("id", "variant", "planner", "seed")}, "fault": {"target": target, "kind": kind, "placement": "every call"}}
                try:
                    _, calls, _ = run_scenario(sc, None, whole=(target, kind))
                except BaseException as e:  # noqa: BLE001  (a Rust panic arrives as PanicException, a BaseException)
                    rep.violate("%s|%s|exception-escaped|%s" % (sc["planner"], target, type(e).__name__), "a %s callback failing without a Python frame (%s) made the planner call raise %s instead of treating the state as False" % (target, kind, type(e).__name__), det)
                    continue
                rep.distinct.add(hash((sc["id"], target, kind, "whole")))
                if [c[0] for c in calls] != [c[0] for c in ref_calls] or [c[1] for c in calls] != [c[1] for c in ref_calls]:
                    rep.violate("%s|%s-callback|%s|differs-from-returning-False" % (sc["planner"], target, kind), "a %s callback that fails on every call (%s) does not behave like one returning False (results %r vs %r)" % (target, kind, [c[0] for c in calls], [c[0] for c in ref_calls]), det)
        # a goal SAMPLER that raises SystemExit: the core's answer to a failing goal sampler is an error from the
        # planner call - not the end of the process, and nothing but an ordinary exception for the caller
        if sc["planner"] == "RRTConnect" or (sc["planner"] != "PRM" and sc.get("bias", 0) > 0):
            det = {"scenario": {k: sc[k] for k in ("id", "variant", "planner", "seed")}, "fault": {"target": "sample_goal", "kind": "sysexit", "placement": "every call"}}
            rep.count("fault_runs")
            rep.count("goal_sampler_exit_runs")
            PENDING["det"] = det
            PENDING["planner"] = sc["planner"]
            PENDING["target"] = "sample_goal"
            try:
                run_scenario(sc, None, whole=("sample", "sysexit"))
            except Exception:  # noqa: BLE001  (planning errors arrive as plain Exception)
                pass
            except BaseException as e:  # noqa: BLE001
                rep.violate("%s|sample_goal|exception-escaped|%s" % (sc["planner"], type(e).__name__), "a goal sampler raising SystemExit made the planner call raise %s" % type(e).__name__, det)
            PENDING["det"] = None
        for target, place in placements:
            # goal faults are also run against a goal object that implements the optional distance_goal
            wd = [False, True] if target == "goal" and not (light and (is_hist or place.get("k", 0) >= 3)) else [False]
            for with_d in wd:
                ref_fault = dict(place, target=target, kind="raise")
                try:
                    ref_env, ref_calls, _ = run_scenario(sc, ref_fault, as_false=True, with_distance=with_d)
                except Exception as e:  # noqa: BLE001
                    rep.errors.append("reference run failed for %s: %r" % (sc["id"], e))
                    continue
                ref_res = [c[0] for c in ref_calls]
                ref_bits = [c[1] for c in ref_calls]
                for kind in kinds:
                    if light and kind in ("baseexc", "kbd", "sysexit") and (place.get("k", 0) >= 2 or with_d or (kind in ("kbd", "sysexit") and place["place"] == "kth")):
                        continue  # quick tier: the BaseException kinds on the region faults and the first calls
                    fault = dict(place, target=target, kind=kind)
                    rep.count("fault_runs")
                    if with_d:
                        rep.count("fault_runs_goal_with_distance_goal")
                    det = {"scenario": {k: sc[k] for k in ("id", "variant", "planner", "seed")}, "fault": {"target": target, "kind": kind, "placement": place, "goal_implements_distance_goal": with_d}}
                    PENDING["det"] = det
                    PENDING["planner"] = sc["planner"]
                    PENDING["target"] = target
                    try:
                        env, calls, _ = run_scenario(sc, fault, with_distance=with_d)
                    except (Fault, TransientFault, Interrupt, KeyboardInterrupt, SystemExit):
                        PENDING["det"] = None
                        rep.violate("%s|%s|exception-escaped" % (sc["planner"], target), "the injected Python exception propagated out of the planner call instead of being treated as False", det)
                        continue
                    except Exception as e:  # noqa: BLE001
                        PENDING["det"] = None
                        rep.errors.append("fault run failed for %s: %r" % (sc["id"], e))
                        continue
                    PENDING["det"] = None
                    res = [c[0] for c in calls]
                    pbits_all = [c[1] for c in calls]
                    if env.struck:
                        rep.count("faults_reached")
                        rep.distinct.add(hash((sc["id"], target, kind, with_d, json.dumps(place, sort_keys=True))))
                    if "ok" in res:
                        rep.count("fault_runs_with_path")
                    cls = "%s|%s-callback|%s" % (sc["planner"], target, kind) + ("|goal-with-distance_goal" if with_d else "")
                    if res != ref_res or pbits_all != ref_bits:
                        rep.violate(cls + "|differs-from-returning-False", "a %s callback that %s does not behave like one returning False (results %r vs %r)" % (target, {"raise": "raises", "none": "returns None", "int": "returns 1", "str": "returns 'x'", "oserror": "raises TimeoutError", "baseexc": "raises a BaseException subclass", "kbd": "raises KeyboardInterrupt", "sysexit": "raises SystemExit"}[kind], res, ref_res), det)
                        continue
                    if env.valid_calls != ref_env.valid_calls or env.valid_hash != ref_env.valid_hash:
                        rep.count("traces_differing_from_returning_False")  # information only: the statement is about the result
                    if env.struck:
                        struck = env.struck_now
                        for r1, pbits in zip(res, pbits_all):
                            if r1 != "ok":
                                continue
                            if target == "valid" and any(tuple(s) in struck for s in pbits):
                                rep.violate(cls + "|path-through-failed-state", "the returned path contains a state on which the validity callback failed", det)
                                break
                            if target == "goal" and tuple(pbits[-1]) in struck and sc["planner"] != "RRTConnect":
                                rep.violate(cls + "|goal-claimed-on-failed-state", "the path ends in a state on which is_satisfied failed", det)
                                break
                    if len(rep.samples) < 6 and env.struck:
                        rep.samples.append({"scenario": sc["id"], "fault": det["fault"], "results": res, "states_struck": len(env.struck)})


def widen(p):
    q = dict(p)
    if q["k"] == "sq":
        q["r2"] = q["r2"] * 2.25
    elif q["k"] == "dot":
        q["c"] = q["c"] - 0.02
    elif q["k"] == "range":
        q["lo"] = q["lo"] - 0.25
        q["hi"] = q["hi"] + 0.25
    return q


# A fault run during which the INTERPRETER EXITS (a callback's SystemExit handed to PyErr_Print) cannot be caught:
# the exit hook records it as the violation it is, writes the report so far, and ends the driver normally.
PENDING = {"det": None, "planner": None, "target": None, "rep": None, "out": None}


def _on_exit():
    det = PENDING["det"]
    if det is None or PENDING["rep"] is None:
        return
    rep = PENDING["rep"]
    rep.violate("%s|%s|interpreter-exit" % (PENDING["planner"], PENDING["target"]), "the interpreter exited in the middle of a planner call: a callback's SystemExit was neither treated as False nor raised to the caller", det)
    rep.dump(PENDING["out"])
    os._exit(0)


def main():
    import atexit
    mode, inp_path, out_path = sys.argv[1:4]
    inp = json.load(open(inp_path))
    rep = Report()
    PENDING["rep"] = rep
    PENDING["out"] = out_path
    atexit.register(_on_exit)
    try:
        if mode == "c19":
            c19(inp, rep)
        else:
            c20(inp, rep)
    except Exception as e:  # noqa: BLE001
        import traceback
        os.dup2(_real_stderr, 2)
        traceback.print_exc()
        rep.errors.append("driver crashed: %r" % (e,))
        PENDING["det"] = None
        rep.dump(out_path)
        sys.exit(3)
    PENDING["det"] = None  # (the run is over: whatever ends the process now is not a planner call)
    rep.dump(out_path)


if __name__ == "__main__":
    main()
